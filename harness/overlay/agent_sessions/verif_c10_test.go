//go:build verif

package sessions

import (
	"bufio"
	"fmt"
	"net"
	"net/http"
	"net/http/httptest"
	"net/http/httputil"
	"net/url"
	"strings"
	"sync"
	"testing"
	"time"
)

type verifC10Req struct {
	// which session cookie the client presents: -1 none, k >= 0 the one issued in answer to request k of
	// this history, -2 a made-up value
	Use        int         `json:"use"`
	Host       string      `json:"host"`
	Path       string      `json:"path"`
	Extra      [][2]string `json:"extra"`       // the client's own other cookies
	SetCookies []string    `json:"set_cookies"` // what the backend answers with
	Dup        int         `json:"dup"`         // the session cookie is sent more than once: 1 twice, 2 followed by a stale value, 3 four times (valid, stale, valid, valid)
}

type verifC10Obs struct {
	ExpiresInMs            int64       `json:"expires_in_ms,omitempty"` // lifetime left on the session cookie just issued
	Panic                  string      `json:"panic,omitempty"`         // the handler panicked
	BackendCookies         [][2]string `json:"backend_cookies"`         // name, value pairs the backend saw, in order
	ClientSet              []string    `json:"client_set"`              // Set-Cookie header values the client received
	IssuedValue            string      `json:"issued_value"`
	Status                 int         `json:"status"`
	SessionCookieAtBackend bool        `json:"session_cookie_at_backend"`
}

func verifRunHistory(h http.Handler, cookieName string, reqs []verifC10Req, cur **verifC10Req, mu *sync.Mutex) []verifC10Obs {
	issued := map[int]string{}
	var out []verifC10Obs
	for i := range reqs {
		rq := &reqs[i]
		req := httptest.NewRequest("GET", "http://"+rq.Host+rq.Path, nil)
		for _, e := range rq.Extra {
			req.AddCookie(&http.Cookie{Name: e[0], Value: e[1]})
		}
		switch {
		case rq.Use >= 0:
			req.AddCookie(&http.Cookie{Name: cookieName, Value: issued[rq.Use]})
			// the same cookie name more than once (browsers do this for cookies of different paths/domains)
			switch rq.Dup {
			case 1:
				req.AddCookie(&http.Cookie{Name: cookieName, Value: issued[rq.Use]})
			case 2:
				req.AddCookie(&http.Cookie{Name: cookieName, Value: "stale-session-id"})
			case 3:
				req.AddCookie(&http.Cookie{Name: cookieName, Value: issued[rq.Use]})
				req.AddCookie(&http.Cookie{Name: cookieName, Value: "stale-session-id"})
				req.AddCookie(&http.Cookie{Name: cookieName, Value: issued[rq.Use]})
				req.AddCookie(&http.Cookie{Name: cookieName, Value: issued[rq.Use]})
			}
		case rq.Use == -2:
			// a value the client made up: of any length (the same one throughout a history: one made-up session)
			req.AddCookie(&http.Cookie{Name: cookieName, Value: []string{"made-up-session-id", "abc", "x", "1234567", "12345678", "0"}[len(reqs)%6]})
		}
		mu.Lock()
		*cur = rq
		rec := httptest.NewRecorder()
		req.Header.Set("X-Verif-Index", fmt.Sprint(i))
		panicked := ""
		func() {
			// (in the agent a panic here ends the process: requests are served on bare goroutines)
			defer func() {
				if e := recover(); e != nil {
					panicked = fmt.Sprint(e)
				}
			}()
			h.ServeHTTP(rec, req)
		}()
		mu.Unlock()
		o := verifC10Obs{Status: rec.Code, ClientSet: rec.Header().Values("Set-Cookie"), Panic: panicked}
		for _, c := range (&http.Response{Header: rec.Header()}).Cookies() {
			if c.Name == cookieName {
				o.IssuedValue = c.Value
				issued[i] = c.Value
				o.ExpiresInMs = time.Until(c.Expires).Milliseconds()
			}
		}
		if b := rec.Header().Get("X-Verif-Backend-Cookies"); b != "" {
			for _, kv := range strings.Split(b, "\x1f") {
				p := strings.SplitN(kv, "=", 2)
				if len(p) == 2 {
					o.BackendCookies = append(o.BackendCookies, [2]string{p[0], p[1]})
					if p[0] == cookieName {
						o.SessionCookieAtBackend = true
					}
				}
			}
		}
		out = append(out, o)
	}
	return out
}

// TestVerifC10: request histories over several sessions, hosts and paths through the real
// SessionHandler around a scripted backend handler.
func TestVerifC10(t *testing.T) {
	out := verifOpenOut(t)
	defer out.close()
	rng := &verifRng{s: verifSeed()}
	const cookieName = "verif-session"
	hosts := []string{"app.example.com", "other.example.com", "example.com", "app.example.com:8443", "shop.co.uk", "bank.co.uk", "alice.github.io", "bob.github.io"}
	paths := []string{"/", "/a", "/a/b", "/a/b/c", "/other", "/a/", "/a/b/", "/other/", "/a//b", "/a/./b"}
	setPool := []string{"k1=v1", "k1=v2", "k2=w; Path=/a", "k3=x; Path=/a/b", "k4=dom; Domain=example.com", "k5=sec; Secure", "k6=ho; HttpOnly", "k1=; Max-Age=0",
		"k2=gone; Path=/a; Expires=Thu, 01 Jan 1970 00:00:00 GMT", "k7=other; Domain=other.example.com", "k8=p; Path=/other", "k9=long; Max-Age=3600", "bad cookie", "k10=\"quoted\"", "k11=slash; Path=/a/", "k12=deep; Path=/a/b/",
		// Domain attributes naming a public suffix (a compliant jar refuses them or keeps them host-only) and foreign domains
		"k13=suffix; Domain=co.uk", "k14=suffix; Domain=github.io", "k15=tld; Domain=com", "k16=foreign; Domain=bank.co.uk", "k17=dot; Domain=.example.com"}
	nh := 60
	if verifThorough() {
		nh = 2500
	}
	for hi := 0; hi < nh; hi++ {
		limit := []int{1, 2, 3, 1000}[rng.intn(4)]
		var cur *verifC10Req
		var mu sync.Mutex
		backend := http.HandlerFunc(func(w http.ResponseWriter, r *http.Request) {
			var parts []string
			for _, c := range r.Cookies() {
				parts = append(parts, c.Name+"="+c.Value)
			}
			w.Header().Set("X-Verif-Backend-Cookies", strings.Join(parts, "\x1f"))
			for _, sc := range cur.SetCookies {
				w.Header().Add("Set-Cookie", sc)
			}
			w.WriteHeader(200)
			w.Write([]byte("ok"))
		})
		c := NewCache(cookieName, time.Hour, limit, hi%2 == 0)
		h := c.SessionHandler(backend, nil)
		if hi == 1 {
			// an agent that has been up for a while when its first client arrives
			time.Sleep(2500 * time.Millisecond)
		}
		n := 2 + rng.intn(14)
		var reqs []verifC10Req
		var issuedAt []int // requests that got a session cookie
		for i := 0; i < n; i++ {
			rq := verifC10Req{Use: -1, Host: hosts[rng.intn(len(hosts))], Path: paths[rng.intn(len(paths))]}
			if len(issuedAt) > 0 && rng.intn(4) != 0 {
				rq.Use = issuedAt[rng.intn(len(issuedAt))]
			} else if rng.intn(12) == 0 {
				rq.Use = -2
			}
			if rq.Use == -1 {
				issuedAt = append(issuedAt, i)
			}
			if rq.Use >= 0 && rng.intn(5) == 0 {
				rq.Dup = 1 + rng.intn(3)
			}
			for k := rng.intn(3); k > 0; k-- {
				rq.Extra = append(rq.Extra, [2]string{[]string{"own1", "own2", "k1"}[rng.intn(3)], fmt.Sprintf("c%d", rng.intn(5))})
			}
			for k := rng.intn(4); k > 0; k-- {
				rq.SetCookies = append(rq.SetCookies, setPool[rng.intn(len(setPool))])
			}
			reqs = append(reqs, rq)
		}
		if hi < 2 {
			// corpus (not left to the random draw): cookies set, then deleted by the backend (Max-Age=0, Expires in the past),
			// then looked at again on the same and on a deeper path
			host := []string{"app.example.com", "shop.co.uk"}[hi]
			reqs = []verifC10Req{
				{Use: -1, Host: host, Path: "/a", SetCookies: []string{"k1=v1", "k2=w; Path=/a", "k9=long; Max-Age=3600", "k3=x; Path=/a/b"}},
				{Use: 0, Host: host, Path: "/a/b"},
				{Use: 0, Host: host, Path: "/a", SetCookies: []string{"k1=; Max-Age=0", "k2=gone; Path=/a; Expires=Thu, 01 Jan 1970 00:00:00 GMT", "k9=; Max-Age=-1"}},
				{Use: 0, Host: host, Path: "/a"},
				{Use: 0, Host: host, Path: "/a/b"},
			}
		}
		obs := verifRunHistory(h, cookieName, reqs, &cur, &mu)
		out.emit(map[string]interface{}{"kind": "history", "index": hi, "limit": limit, "disable_ssl": hi%2 == 0, "reqs": reqs, "obs": obs})
	}
}

// TestVerifC10Concurrent: concurrent requests in the same and in different sessions (run under -race).
func TestVerifC10Concurrent(t *testing.T) {
	out := verifOpenOut(t)
	defer out.close()
	const cookieName = "verif-session"
	backend := http.HandlerFunc(func(w http.ResponseWriter, r *http.Request) {
		var parts []string
		for _, c := range r.Cookies() {
			parts = append(parts, c.Name+"="+c.Value)
		}
		w.Header().Set("X-Verif-Backend-Cookies", strings.Join(parts, "\x1f"))
		if v := r.URL.Query().Get("set"); v != "" {
			w.Header().Add("Set-Cookie", "owner="+v)
		}
		if v := r.URL.Query().Get("name"); v != "" {
			w.Header().Add("Set-Cookie", v+"=1")
		}
		w.WriteHeader(200)
	})
	c := NewCache(cookieName, time.Hour, 1000, true)
	h := c.SessionHandler(backend, nil)
	nsess := 16
	rounds := 40
	// open the sessions (concurrently: many cookie-less requests at once)
	vals := make([]string, nsess)
	var wg sync.WaitGroup
	panics := 0
	var pmu sync.Mutex
	do := func(req *http.Request) *httptest.ResponseRecorder {
		rec := httptest.NewRecorder()
		func() {
			defer func() {
				if p := recover(); p != nil {
					pmu.Lock()
					panics++
					pmu.Unlock()
				}
			}()
			h.ServeHTTP(rec, req)
		}()
		return rec
	}
	for s := 0; s < nsess; s++ {
		wg.Add(1)
		go func(s int) {
			defer wg.Done()
			rec := do(httptest.NewRequest("GET", fmt.Sprintf("http://app.example.com/?set=s%d", s), nil))
			for _, ck := range (&http.Response{Header: rec.Header()}).Cookies() {
				if ck.Name == cookieName {
					vals[s] = ck.Value
				}
			}
		}(s)
	}
	wg.Wait()
	mixed, missing, leaked := 0, 0, 0
	for s := 0; s < nsess; s++ {
		for k := 0; k < 4; k++ {
			wg.Add(1)
			go func(s int) {
				defer wg.Done()
				for i := 0; i < rounds; i++ {
					req := httptest.NewRequest("GET", "http://app.example.com/x", nil)
					req.AddCookie(&http.Cookie{Name: cookieName, Value: vals[s]})
					rec := do(req)
					b := rec.Header().Get("X-Verif-Backend-Cookies")
					pmu.Lock()
					if !strings.Contains(b, fmt.Sprintf("owner=s%d", s)) {
						missing++
					}
					for o := 0; o < nsess; o++ {
						if o != s && strings.Contains(b+"\x1f", fmt.Sprintf("owner=s%d\x1f", o)) {
							mixed++
						}
					}
					if strings.Contains(b, cookieName) || len(rec.Header().Values("Set-Cookie")) > 0 {
						leaked++
					}
					pmu.Unlock()
				}
			}(s)
		}
	}
	wg.Wait()
	// first use of a session the cache does not know (a browser that still holds the cookie of a restarted agent, or an
	// evicted session) by several requests at once: every cookie the backend sets in those responses must be in the
	// session afterwards
	lostFirstUse, roundsFirst := 0, 1500
	var lostExample []string
	for r := 0; r < roundsFirst; r++ {
		sid := fmt.Sprintf("unknown-session-%d", r)
		const k = 6
		for i := 0; i < k; i++ {
			wg.Add(1)
			go func(i int) {
				defer wg.Done()
				req := httptest.NewRequest("GET", fmt.Sprintf("http://app.example.com/?name=c%d", i), nil)
				req.AddCookie(&http.Cookie{Name: cookieName, Value: sid})
				do(req)
			}(i)
		}
		wg.Wait()
		req := httptest.NewRequest("GET", "http://app.example.com/after", nil)
		req.AddCookie(&http.Cookie{Name: cookieName, Value: sid})
		b := do(req).Header().Get("X-Verif-Backend-Cookies") + "\x1f"
		for i := 0; i < k; i++ {
			if !strings.Contains(b, fmt.Sprintf("c%d=1\x1f", i)) {
				lostFirstUse++
				if len(lostExample) < 3 {
					lostExample = append(lostExample, fmt.Sprintf("round %d: cookie c%d set in a response is not in the session afterwards (backend saw %q)", r, i, strings.ReplaceAll(b, "\x1f", "; ")))
				}
			}
		}
	}
	out.emit(map[string]interface{}{"kind": "concurrent", "first_use_rounds": roundsFirst, "cookies_lost_at_first_use": lostFirstUse, "first_use_examples": lostExample, "sessions": nsess, "requests": nsess * 4 * rounds, "panics": panics, "mixed": mixed, "missing": missing, "leaked": leaked})
}

// TestVerifC10Interim: backends that send informational responses (100, 102, 103, twice 103) before the final response.
// The whole chain is real here: client -> httptest server -> SessionHandler -> httputil.ReverseProxy -> raw TCP backend.
// The client must get the final status, no backend cookie, a session cookie; the cookie must be in the session afterwards.
func TestVerifC10Interim(t *testing.T) {
	out := verifOpenOut(t)
	defer out.close()
	const cookieName = "verif-session"
	type sc struct {
		Interim []int  `json:"interim"`
		Status  int    `json:"status"`
		Cookie  string `json:"cookie"`
	}
	var cur sc
	var mu sync.Mutex
	var seenCookies []string
	ln, err := net.Listen("tcp", "127.0.0.1:0")
	if err != nil {
		t.Fatal(err)
	}
	defer ln.Close()
	go func() {
		for {
			c, err := ln.Accept()
			if err != nil {
				return
			}
			go func(c net.Conn) {
				defer c.Close()
				br := bufio.NewReader(c)
				for {
					req, err := http.ReadRequest(br)
					if err != nil {
						return
					}
					mu.Lock()
					s := cur
					seenCookies = nil
					for _, ck := range req.Cookies() {
						seenCookies = append(seenCookies, ck.Name+"="+ck.Value)
					}
					mu.Unlock()
					for _, code := range s.Interim {
						fmt.Fprintf(c, "HTTP/1.1 %d %s\r\nLink: </s.css>; rel=preload\r\n\r\n", code, http.StatusText(code))
					}
					fmt.Fprintf(c, "HTTP/1.1 %d %s\r\n", s.Status, http.StatusText(s.Status))
					if s.Cookie != "" {
						fmt.Fprintf(c, "Set-Cookie: %s\r\n", s.Cookie)
					}
					fmt.Fprintf(c, "Content-Length: 2\r\n\r\nok")
				}
			}(c)
		}
	}()
	u, _ := url.Parse("http://" + ln.Addr().String())
	for ci, s := range []sc{{nil, 200, "k1=v1; Path=/"}, {[]int{103}, 200, "k1=v1; Path=/"}, {[]int{103}, 404, "k2=v2; Path=/"}, {[]int{102}, 302, "k3=v3; Path=/"},
		{[]int{103, 103}, 200, "k4=v4; Path=/"}, {[]int{103}, 200, ""}, {[]int{100}, 201, "k5=v5; Path=/"}} {
		cache := NewCache(cookieName, time.Hour, 10, true)
		srv := httptest.NewServer(cache.SessionHandler(httputil.NewSingleHostReverseProxy(u), nil))
		client := &http.Client{CheckRedirect: func(*http.Request, []*http.Request) error { return http.ErrUseLastResponse }}
		mu.Lock()
		cur = s
		mu.Unlock()
		res := map[string]interface{}{"kind": "interim", "index": ci, "backend": s}
		resp, err := client.Get(srv.URL + "/x")
		if err != nil {
			res["err"] = err.Error()
			out.emit(res)
			srv.Close()
			continue
		}
		resp.Body.Close()
		res["status"] = resp.StatusCode
		var names []string
		session := ""
		for _, ck := range resp.Cookies() {
			names = append(names, ck.Name)
			if ck.Name == cookieName {
				session = ck.Value
			}
		}
		res["client_set_cookie_names"] = names
		res["session_issued"] = session != ""
		// second request in the session: the backend must see the cookie it set
		mu.Lock()
		cur = sc{Status: 200}
		mu.Unlock()
		req, _ := http.NewRequest("GET", srv.URL+"/y", nil)
		if session != "" {
			req.AddCookie(&http.Cookie{Name: cookieName, Value: session})
		}
		if r2, err := client.Do(req); err == nil {
			r2.Body.Close()
		}
		mu.Lock()
		res["backend_saw_on_second_request"] = append([]string{}, seenCookies...)
		mu.Unlock()
		out.emit(res)
		srv.Close()
	}
}

// verifHookWriter runs a hook at the moment the session response writer releases the header to the writer behind it (in the
// agent: the moment the response starts on its way to the client, who may follow up at once).
type verifHookWriter struct {
	http.ResponseWriter
	hook func(h http.Header)
	done bool
}

func (w *verifHookWriter) WriteHeader(code int) {
	if !w.done && code >= 200 {
		w.done = true
		w.hook(w.Header())
	}
	w.ResponseWriter.WriteHeader(code)
}

// TestVerifC10ReleaseOrder: a client that follows up the instant a response is released (a redirect, a page's first
// sub-resource): what the backend set in that response is already part of the session.
func TestVerifC10ReleaseOrder(t *testing.T) {
	out := verifOpenOut(t)
	defer out.close()
	const cookieName = "verif-session"
	var mu sync.Mutex
	setNext := ""
	var saw []string
	backend := http.HandlerFunc(func(w http.ResponseWriter, r *http.Request) {
		mu.Lock()
		var parts []string
		for _, c := range r.Cookies() {
			parts = append(parts, c.Name+"="+c.Value)
		}
		saw = parts
		sc := setNext
		setNext = ""
		mu.Unlock()
		if sc != "" {
			w.Header().Add("Set-Cookie", sc)
		}
		w.WriteHeader(200)
		w.Write([]byte("ok"))
	})
	c := NewCache(cookieName, time.Hour, 10, true)
	h := c.SessionHandler(backend, nil)
	session := ""
	for ci, cs := range []struct{ name, set, want string }{{"new-session-first-cookie", "auth=tok1; Path=/", "auth=tok1"}, {"established-session-overwrite", "auth=tok2; Path=/", "auth=tok2"},
		{"established-session-second-cookie", "pref=dark; Path=/", "pref=dark"}, {"established-session-delete", "pref=; Path=/; Max-Age=0", ""}} {
		mu.Lock()
		setNext = cs.set
		mu.Unlock()
		var followUp []string
		req := httptest.NewRequest("GET", "http://app.example.com/login", nil)
		if session != "" {
			req.AddCookie(&http.Cookie{Name: cookieName, Value: session})
		}
		rec := httptest.NewRecorder()
		hw := &verifHookWriter{ResponseWriter: rec}
		hw.hook = func(hdr http.Header) {
			sid := session
			for _, ck := range (&http.Response{Header: hdr}).Cookies() {
				if ck.Name == cookieName {
					sid = ck.Value
				}
			}
			r2 := httptest.NewRequest("GET", "http://app.example.com/next", nil)
			r2.AddCookie(&http.Cookie{Name: cookieName, Value: sid})
			h.ServeHTTP(httptest.NewRecorder(), r2)
			mu.Lock()
			followUp = append([]string(nil), saw...)
			mu.Unlock()
			session = sid
		}
		h.ServeHTTP(hw, req)
		out.emit(map[string]interface{}{"kind": "release-order", "index": ci, "case": cs.name, "backend_set": cs.set, "expected_in_follow_up": cs.want, "follow_up_saw": followUp})
	}
}
