//go:build verif

package store

import (
	"testing"

	"github.com/google/inverting-proxy/app/types"
)

type verifBackend struct {
	ID       string   `json:"id"`
	Prefixes []string `json:"prefixes"`
}

// TestVerifC18Direct calls mostSpecificMatchingBackend on structured and
// seeded random backend sets (overlapping, nested, duplicate and empty
// prefixes) and records the chosen backend (or the error).
func TestVerifC18Direct(t *testing.T) {
	out := verifOpenOut(t)
	defer out.close()
	rng := &verifRng{s: verifSeed()}
	alphabet := []string{"/", "a", "b"}
	var words []string
	words = append(words, "")
	var gen func(prefix string, depth int)
	gen = func(prefix string, depth int) {
		if depth == 0 {
			return
		}
		for _, c := range alphabet {
			w := prefix + c
			words = append(words, w)
			gen(w, depth-1)
		}
	}
	gen("", 3) // 1 + 3 + 9 + 27 = 40 words
	var paths []string
	paths = append(paths, words...)
	for _, w := range words {
		if len(w) == 3 {
			for _, c := range alphabet {
				paths = append(paths, w+c)
			}
		}
	}
	run := func(path string, bs []verifBackend) {
		var tb []*types.Backend
		for _, b := range bs {
			tb = append(tb, &types.Backend{BackendID: b.ID, PathPrefixes: b.Prefixes})
		}
		r1, e1 := mostSpecificMatchingBackend(path, tb)
		r2, e2 := mostSpecificMatchingBackend(path, tb)
		rec := map[string]interface{}{"path": path, "backends": bs, "deterministic": r1 == r2 && (e1 == nil) == (e2 == nil)}
		if e1 != nil {
			rec["result"] = nil
		} else {
			rec["result"] = r1
		}
		out.emit(rec)
	}
	// bounded-exhaustive: two backends with one prefix each over all words, a few paths
	for _, p1 := range words[:13] {
		for _, p2 := range words[:13] {
			for _, path := range []string{"", "/", "/a", "/a/", "ab/", "/ab", "b"} {
				run(path, []verifBackend{{"b1", []string{p1}}, {"b2", []string{p2}}})
			}
		}
	}
	n := 2500
	if verifThorough() {
		n = 150000
	}
	ids := []string{"b1", "b2", "b3", "b1", "zz"}
	for i := 0; i < n; i++ {
		nb := rng.intn(4)
		bs := []verifBackend{}
		for j := 0; j < nb; j++ {
			np := rng.intn(4)
			ps := []string{}
			for k := 0; k < np; k++ {
				ps = append(ps, words[rng.intn(len(words))])
			}
			bs = append(bs, verifBackend{ids[rng.intn(len(ids))], ps})
		}
		run(paths[rng.intn(len(paths))], bs)
	}
}
