//go:build verif

package store

import (
	"bufio"
	"encoding/json"
	"os"
	"strconv"
	"sync"
	"testing"
)

// Shared helpers for the verification harness files injected into this
// package with `go test -overlay` (nothing here is part of the repository).

type verifOut struct {
	mu sync.Mutex
	f  *os.File
	w  *bufio.Writer
}

func verifOpenOut(t *testing.T) *verifOut {
	path := os.Getenv("VERIF_OUT")
	if path == "" {
		t.Skip("VERIF_OUT not set")
	}
	f, err := os.OpenFile(path, os.O_CREATE|os.O_WRONLY|os.O_APPEND, 0o644) // appended: one run may execute several tests (the driver removes the file first)
	if err != nil {
		t.Fatal(err)
	}
	return &verifOut{f: f, w: bufio.NewWriterSize(f, 1<<20)}
}

func (o *verifOut) emit(v interface{}) {
	b, err := json.Marshal(v)
	if err != nil {
		panic(err)
	}
	o.mu.Lock()
	o.w.Write(b)
	o.w.WriteByte('\n')
	o.mu.Unlock()
}

func (o *verifOut) close() {
	o.mu.Lock()
	o.w.Flush()
	o.f.Close()
	o.mu.Unlock()
}

func verifSeed() uint64 {
	s, _ := strconv.ParseUint(os.Getenv("VERIF_SEED"), 10, 64)
	return s
}

func verifThorough() bool { return os.Getenv("VERIF_TIER") == "thorough" }

// splitmix64: every random choice of the harness derives from one state.
type verifRng struct{ s uint64 }

func (r *verifRng) next() uint64 {
	r.s += 0x9e3779b97f4a7c15
	z := r.s
	z = (z ^ (z >> 30)) * 0xbf58476d1ce4e5b9
	z = (z ^ (z >> 27)) * 0x94d049bb133111eb
	return z ^ (z >> 31)
}
func (r *verifRng) intn(n int) int { return int(r.next() % uint64(n)) }
