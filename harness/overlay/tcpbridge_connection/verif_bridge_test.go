//go:build verif

package connection

import (
	"bufio"
	"bytes"
	"context"
	"crypto/sha256"
	"encoding/hex"
	"fmt"
	"io"
	"net"
	"net/http"
	"net/http/httptest"
	"net/url"
	"os"
	"os/exec"
	"strings"
	"sync"
	"testing"
	"time"

	"github.com/gorilla/websocket"
)

// ---- C15 part 1: WebsocketNetConn.Read/Write against a raw gorilla peer ----

type verifFrame struct {
	Type int    `json:"type"` // 1 text, 2 binary
	Data string `json:"data"` // payload as sent (text: the hex string)
}

// TestVerifC15Conn feeds scripted websocket frames into WebsocketNetConn.Read
// with scripted read-buffer sizes and records what every Read returned; and
// records the frames produced by Write.
func TestVerifC15Conn(t *testing.T) {
	out := verifOpenOut(t)
	defer out.close()
	rng := &verifRng{s: verifSeed()}
	n := 60
	if verifThorough() {
		n = 1500
	}
	up := websocket.Upgrader{}
	for ci := 0; ci < n; ci++ {
		// frames
		var frames []verifFrame
		nf := 1 + rng.intn(8)
		bad := rng.intn(12) == 0
		for i := 0; i < nf; i++ {
			switch rng.intn(8) {
			case 0:
				frames = append(frames, verifFrame{Type: websocket.BinaryMessage, Data: "ignored-binary"})
			case 1:
				frames = append(frames, verifFrame{Type: websocket.TextMessage, Data: ""})
			default:
				l := []int{1, 2, 3, 16, 100, 255, 1000, 5000}[rng.intn(8)]
				b := make([]byte, l)
				for j := range b {
					b[j] = byte(rng.next())
				}
				s := hex.EncodeToString(b)
				if rng.intn(3) == 0 {
					s = strings.ToUpper(s)
				}
				frames = append(frames, verifFrame{Type: websocket.TextMessage, Data: s})
			}
		}
		if bad {
			frames = append(frames, verifFrame{Type: websocket.TextMessage, Data: []string{"abc", "zz", "0g"}[rng.intn(3)]})
		}
		var sizes []int
		for i := 0; i < 40; i++ {
			sizes = append(sizes, []int{1, 2, 3, 7, 64, 1000, 4096, 65536}[rng.intn(8)])
		}
		srvDone := make(chan struct{})
		srv := httptest.NewServer(http.HandlerFunc(func(w http.ResponseWriter, r *http.Request) {
			c, err := up.Upgrade(w, r, nil)
			if err != nil {
				return
			}
			defer c.Close()
			for _, f := range frames {
				c.WriteMessage(f.Type, []byte(f.Data))
			}
			c.WriteMessage(websocket.CloseMessage, websocket.FormatCloseMessage(websocket.CloseNormalClosure, ""))
			<-srvDone
		}))
		u, _ := url.Parse("ws" + strings.TrimPrefix(srv.URL, "http"))
		nc, err := DialWebsocket(context.Background(), u, nil)
		if err != nil {
			t.Fatal(err)
		}
		type rd struct {
			Size int    `json:"size"`
			N    int    `json:"n"`
			Data string `json:"data"`
			Err  string `json:"err,omitempty"`
		}
		var reads []rd
		for _, sz := range sizes {
			buf := make([]byte, sz)
			nc.SetReadDeadline(time.Now().Add(5 * time.Second))
			k, err := nc.Read(buf)
			r := rd{Size: sz, N: k, Data: hex.EncodeToString(buf[:k])}
			if err != nil {
				r.Err = "error"
				if strings.Contains(err.Error(), "decoding") {
					r.Err = "decode"
				} else if websocket.IsCloseError(err, websocket.CloseNormalClosure) {
					r.Err = "closed"
				}
				reads = append(reads, r)
				break
			}
			reads = append(reads, r)
		}
		close(srvDone)
		nc.Close()
		srv.Close()
		out.emit(map[string]interface{}{"kind": "read", "frames": frames, "reads": reads})
	}
	// Write: each write becomes one text frame with the hex encoding
	var got []verifFrame
	var mu sync.Mutex
	done := make(chan struct{})
	srv := httptest.NewServer(http.HandlerFunc(func(w http.ResponseWriter, r *http.Request) {
		c, err := up.Upgrade(w, r, nil)
		if err != nil {
			return
		}
		defer c.Close()
		for {
			mt, msg, err := c.ReadMessage()
			if err != nil {
				close(done)
				return
			}
			mu.Lock()
			got = append(got, verifFrame{Type: mt, Data: string(msg)})
			mu.Unlock()
		}
	}))
	defer srv.Close()
	u, _ := url.Parse("ws" + strings.TrimPrefix(srv.URL, "http"))
	nc, err := DialWebsocket(context.Background(), u, nil)
	if err != nil {
		t.Fatal(err)
	}
	var writes []string
	for i := 0; i < 40; i++ {
		l := []int{0, 1, 2, 255, 256, 1000, 70000}[rng.intn(7)]
		b := make([]byte, l)
		for j := range b {
			b[j] = byte(rng.next())
		}
		if i == 0 {
			b = make([]byte, 256)
			for j := range b {
				b[j] = byte(j)
			}
		}
		nc.Write(b)
		writes = append(writes, hex.EncodeToString(b))
	}
	nc.Close()
	select {
	case <-done:
	case <-time.After(5 * time.Second):
	}
	mu.Lock()
	out.emit(map[string]interface{}{"kind": "write", "writes": writes, "frames": got})
	mu.Unlock()
}

// ---- C15 part 2 / C16: the real bridge binaries between a TCP client and a TCP server ----

type verifBridge struct {
	front, back *exec.Cmd
	frontAddr   string
	srvLn       net.Listener
	mu          sync.Mutex
	open        int
	conns       []*verifSrvConn
	passthrough *httptest.Server
	ready       bool
}

type verifSrvConn struct {
	c      net.Conn
	rx     bytes.Buffer
	eof    bool
	eofAt  time.Time
	mu     sync.Mutex
	closed bool
}

func verifFreePort() int {
	l, _ := net.Listen("tcp", "127.0.0.1:0")
	defer l.Close()
	return l.Addr().(*net.TCPAddr).Port
}

// mode: how the TCP server behaves per connection: "echo" echoes, "sink" only reads
func startVerifBridge(t *testing.T, onConn func(sc *verifSrvConn)) *verifBridge {
	fb, bb := os.Getenv("VERIF_BRIDGE_FRONTEND_BIN"), os.Getenv("VERIF_BRIDGE_BACKEND_BIN")
	if fb == "" || bb == "" {
		t.Skip("bridge binaries not provided")
	}
	b := &verifBridge{}
	ln, err := net.Listen("tcp", "127.0.0.1:0")
	if err != nil {
		t.Fatal(err)
	}
	b.srvLn = ln
	go func() {
		for {
			c, err := ln.Accept()
			if err != nil {
				return
			}
			sc := &verifSrvConn{c: c}
			b.mu.Lock()
			if !b.ready {
				// connection caused by the start-up probe
				b.mu.Unlock()
				c.Close()
				continue
			}
			b.open++
			b.conns = append(b.conns, sc)
			b.mu.Unlock()
			go func() {
				onConn(sc)
				b.mu.Lock()
				b.open--
				b.mu.Unlock()
			}()
		}
	}()
	bport, fport := verifFreePort(), verifFreePort()
	b.back = exec.Command(bb, "-frontend-port", fmt.Sprint(bport), "-backend-port", fmt.Sprint(ln.Addr().(*net.TCPAddr).Port))
	b.front = exec.Command(fb, "-frontend-port", fmt.Sprint(fport), "-backend", fmt.Sprintf("ws://127.0.0.1:%d", bport))
	if err := b.back.Start(); err != nil {
		t.Fatal(err)
	}
	if err := b.front.Start(); err != nil {
		t.Fatal(err)
	}
	b.frontAddr = fmt.Sprintf("127.0.0.1:%d", fport)
	for i := 0; i < 100; i++ {
		c1, e1 := net.Dial("tcp", fmt.Sprintf("127.0.0.1:%d", bport))
		if e1 == nil {
			c1.Close()
			c2, e2 := net.Dial("tcp", b.frontAddr)
			if e2 == nil {
				c2.Close()
				break
			}
		}
		time.Sleep(50 * time.Millisecond)
	}
	time.Sleep(300 * time.Millisecond)
	b.mu.Lock()
	b.ready = true
	b.mu.Unlock()
	return b
}

func (b *verifBridge) stop() {
	b.front.Process.Kill()
	b.back.Process.Kill()
	b.front.Wait()
	b.back.Wait()
	b.srvLn.Close()
}

func verifSum(b []byte) string {
	h := sha256.Sum256(b)
	return hex.EncodeToString(h[:8])
}

// TestVerifC15Bridge: full-duplex byte streams through the two real binaries.
func TestVerifC15Bridge(t *testing.T) {
	out := verifOpenOut(t)
	defer out.close()
	rng := &verifRng{s: verifSeed()}
	b := startVerifBridge(t, func(sc *verifSrvConn) {
		// echo server: everything read is written back in pieces of odd sizes
		buf := make([]byte, 8192)
		for {
			n, err := sc.c.Read(buf)
			if n > 0 {
				sc.mu.Lock()
				sc.rx.Write(buf[:n])
				sc.mu.Unlock()
				off := 0
				for off < n {
					l := 1 + (n-off)/3
					sc.c.Write(buf[off : off+l])
					off += l
				}
			}
			if err != nil {
				sc.c.Close()
				return
			}
		}
	})
	defer b.stop()
	nconn := 6
	total := 300000
	if verifThorough() {
		nconn = 40
		total = 8 << 20
	}
	var wg sync.WaitGroup
	for ci := 0; ci < nconn; ci++ {
		sub := &verifRng{s: rng.next()}
		wg.Add(1)
		go func(ci int, rng *verifRng) {
			defer wg.Done()
			c, err := net.Dial("tcp", b.frontAddr)
			if err != nil {
				out.emit(map[string]interface{}{"kind": "bridge", "conn": ci, "err": err.Error()})
				return
			}
			defer c.Close()
			data := make([]byte, total)
			for i := range data {
				data[i] = byte(rng.next())
			}
			if ci == 0 {
				for i := 0; i < 256; i++ {
					data[i] = byte(i)
				}
			}
			var wsizes []int
			go func() {
				off := 0
				for off < len(data) {
					l := []int{1, 2, 100, 1000, 1024, 4096, 65536, 200000}[rng.intn(8)]
					if off+l > len(data) {
						l = len(data) - off
					}
					wsizes = append(wsizes, l)
					c.Write(data[off : off+l])
					off += l
				}
			}()
			got := make([]byte, 0, total)
			c.SetReadDeadline(time.Now().Add(60 * time.Second))
			rb := make([]byte, 1+int(rng.next()%70000))
			var rerr string
			for len(got) < total {
				n, err := c.Read(rb)
				got = append(got, rb[:n]...)
				if err != nil {
					rerr = err.Error()
					break
				}
			}
			out.emit(map[string]interface{}{"kind": "bridge", "conn": ci, "sent": len(data), "sent_sum": verifSum(data), "echoed": len(got), "echo_sum": verifSum(got),
				"equal": bytes.Equal(data, got), "read_buf": len(rb), "err": rerr})
		}(ci, sub)
	}
	wg.Wait()
}

// TestVerifC16Close: closing one TCP end must end the other end.
func TestVerifC16Close(t *testing.T) {
	out := verifOpenOut(t)
	defer out.close()
	type scenario struct {
		Name       string `json:"name"`
		Closer     string `json:"closer"` // client | server
		ClientData int    `json:"client_data"`
		ServerData int    `json:"server_data"`
	}
	var scs []scenario
	for _, closer := range []string{"client", "server"} {
		for _, cd := range []int{0, 1, 50000} {
			for _, sd := range []int{0, 1, 50000} {
				scs = append(scs, scenario{Name: fmt.Sprintf("%s-closes-c%d-s%d", closer, cd, sd), Closer: closer, ClientData: cd, ServerData: sd})
			}
		}
	}
	serverSend := make(chan int, 64)
	serverClose := make(chan bool, 64)
	b := startVerifBridge(t, func(sc *verifSrvConn) {
		sd := <-serverSend
		closeAfter := <-serverClose
		payload := bytes.Repeat([]byte{0x5a}, sd)
		sc.c.Write(payload)
		if closeAfter {
			time.Sleep(20 * time.Millisecond)
			sc.c.Close()
			sc.mu.Lock()
			sc.closed = true
			sc.mu.Unlock()
			return
		}
		buf := make([]byte, 65536)
		for {
			n, err := sc.c.Read(buf)
			sc.mu.Lock()
			sc.rx.Write(buf[:n])
			if err != nil {
				sc.eof, sc.eofAt = true, time.Now()
				sc.mu.Unlock()
				sc.c.Close()
				return
			}
			sc.mu.Unlock()
		}
	})
	defer b.stop()
	for si, s := range scs {
		serverSend <- s.ServerData
		serverClose <- s.Closer == "server"
		c, err := net.Dial("tcp", b.frontAddr)
		if err != nil {
			out.emit(map[string]interface{}{"kind": "close", "scenario": s, "err": err.Error()})
			continue
		}
		c.Write(bytes.Repeat([]byte{0xa5}, s.ClientData))
		res := map[string]interface{}{"kind": "close", "scenario": s}
		if s.Closer == "client" {
			// read what the server sent first, then close
			got := 0
			c.SetReadDeadline(time.Now().Add(3 * time.Second))
			buf := make([]byte, 65536)
			for got < s.ServerData {
				n, err := c.Read(buf)
				got += n
				if err != nil {
					break
				}
			}
			closedAt := time.Now()
			c.Close()
			// the server must see EOF, with all client data, within the bound
			var sc *verifSrvConn
			deadline := time.Now().Add(3 * time.Second)
			for time.Now().Before(deadline) {
				b.mu.Lock()
				if si < len(b.conns) {
					sc = b.conns[si]
				}
				b.mu.Unlock()
				if sc != nil {
					sc.mu.Lock()
					e := sc.eof
					sc.mu.Unlock()
					if e {
						break
					}
				}
				time.Sleep(20 * time.Millisecond)
			}
			if sc != nil {
				sc.mu.Lock()
				res["peer_saw_eof"] = sc.eof
				res["peer_received"] = sc.rx.Len()
				if sc.eof {
					res["eof_delay_ms"] = sc.eofAt.Sub(closedAt).Milliseconds()
				}
				sc.mu.Unlock()
			} else {
				res["peer_saw_eof"] = false
			}
			res["client_received"] = got
		} else {
			// server closes after sending: the client must receive everything, then EOF
			got := 0
			sawEOF := false
			start := time.Now()
			c.SetReadDeadline(time.Now().Add(3 * time.Second))
			buf := make([]byte, 65536)
			for {
				n, err := c.Read(buf)
				got += n
				if err == io.EOF || (err != nil && strings.Contains(err.Error(), "reset")) {
					sawEOF = true
					break
				}
				if err != nil {
					break
				}
			}
			res["peer_saw_eof"] = sawEOF
			res["peer_received"] = got
			res["eof_delay_ms"] = time.Since(start).Milliseconds()
			c.Close()
		}
		out.emit(res)
	}
	// all bridged connections must be released
	time.Sleep(500 * time.Millisecond)
	b.mu.Lock()
	open := b.open
	b.mu.Unlock()
	out.emit(map[string]interface{}{"kind": "open-count", "open": open, "scenarios": len(scs)})
}

// TestVerifC16Overlap: several bridged connections that overlap in time.  Each client sends a
// tag; closing one client must end exactly the server connection that received its tag, the
// others stay usable until their own client closes, and in the end nothing is left open.
func TestVerifC16Overlap(t *testing.T) {
	out := verifOpenOut(t)
	defer out.close()
	b := startVerifBridge(t, func(sc *verifSrvConn) {
		buf := make([]byte, 65536)
		for {
			n, err := sc.c.Read(buf)
			sc.mu.Lock()
			sc.rx.Write(buf[:n])
			if err != nil {
				sc.eof, sc.eofAt = true, time.Now()
				sc.mu.Unlock()
				sc.c.Close()
				return
			}
			sc.mu.Unlock()
		}
	})
	defer b.stop()
	findConn := func(tag string) *verifSrvConn {
		b.mu.Lock()
		defer b.mu.Unlock()
		for _, sc := range b.conns {
			sc.mu.Lock()
			has := bytes.Contains(sc.rx.Bytes(), []byte(tag))
			sc.mu.Unlock()
			if has {
				return sc
			}
		}
		return nil
	}
	for round, n := range []int{2, 3, 6} {
		var clients []net.Conn
		var tags []string
		for i := 0; i < n; i++ {
			c, err := net.Dial("tcp", b.frontAddr) // back to back: the bridge is still dialling for the previous ones
			if err != nil {
				out.emit(map[string]interface{}{"kind": "overlap", "round": round, "err": err.Error()})
				return
			}
			tag := fmt.Sprintf("<tag-%d-%d>", round, i)
			c.Write([]byte(tag))
			clients = append(clients, c)
			tags = append(tags, tag)
		}
		// every tag must arrive on its own server connection
		deadline := time.Now().Add(3 * time.Second)
		arrived := make([]bool, n)
		for time.Now().Before(deadline) {
			all := true
			for i, tag := range tags {
				arrived[i] = findConn(tag) != nil
				all = all && arrived[i]
			}
			if all {
				break
			}
			time.Sleep(20 * time.Millisecond)
		}
		// close in an order that is not the order of opening: first, last, then the rest
		order := []int{0}
		if n > 1 {
			order = append(order, n-1)
		}
		for i := 1; i < n-1; i++ {
			order = append(order, i)
		}
		closedSet := map[int]bool{}
		for _, i := range order {
			clients[i].Write([]byte("<bye>"))
			closedAt := time.Now()
			clients[i].Close()
			closedSet[i] = true
			res := map[string]interface{}{"kind": "overlap", "round": round, "connections": n, "closed_index": i, "tag_arrived": arrived[i]}
			sc := findConn(tags[i])
			sawEOF, gotBye := false, false
			dl := time.Now().Add(3 * time.Second)
			for sc != nil && time.Now().Before(dl) {
				sc.mu.Lock()
				sawEOF, gotBye = sc.eof, bytes.HasPrefix(sc.rx.Bytes(), []byte(tags[i])) && bytes.HasSuffix(sc.rx.Bytes(), []byte("<bye>"))
				sc.mu.Unlock()
				if sawEOF {
					break
				}
				time.Sleep(20 * time.Millisecond)
			}
			res["peer_saw_eof"] = sawEOF
			res["peer_received_all"] = gotBye
			if sawEOF {
				sc.mu.Lock()
				res["eof_delay_ms"] = sc.eofAt.Sub(closedAt).Milliseconds()
				sc.mu.Unlock()
			}
			// the connections still open must not have been ended, and must still carry data to their own server connection
			disturbed, misrouted := 0, 0
			for j := 0; j < n; j++ {
				if closedSet[j] {
					continue
				}
				probe := fmt.Sprintf("<probe-%d-%d-%d>", round, i, j)
				clients[j].Write([]byte(probe))
				okj := false
				d2 := time.Now().Add(2 * time.Second)
				for time.Now().Before(d2) && !okj {
					if scj := findConn(tags[j]); scj != nil {
						scj.mu.Lock()
						okj = bytes.Contains(scj.rx.Bytes(), []byte(probe)) && !scj.eof
						scj.mu.Unlock()
					}
					if !okj {
						time.Sleep(20 * time.Millisecond)
					}
				}
				if !okj {
					disturbed++
					if other := findConn(probe); other != nil && other != findConn(tags[j]) {
						misrouted++
					}
				}
			}
			res["others_disturbed"] = disturbed
			res["others_misrouted"] = misrouted
			out.emit(res)
		}
	}
	time.Sleep(500 * time.Millisecond)
	b.mu.Lock()
	open := b.open
	total := len(b.conns)
	b.mu.Unlock()
	out.emit(map[string]interface{}{"kind": "open-count", "open": open, "scenarios": total})
}

// TestVerifC15Route: which requests the bridge handler takes for itself and which it passes through
// untouched: plain requests and websocket upgrades, on the streaming path and on look-alikes.
func TestVerifC15Route(t *testing.T) {
	out := verifOpenOut(t)
	defer out.close()
	// a TCP server for bridged connections
	ln, err := net.Listen("tcp", "127.0.0.1:0")
	if err != nil {
		t.Fatal(err)
	}
	defer ln.Close()
	var tmu sync.Mutex
	tcpConns := 0
	go func() {
		for {
			c, err := ln.Accept()
			if err != nil {
				return
			}
			tmu.Lock()
			tcpConns++
			tmu.Unlock()
			go func(c net.Conn) { io.Copy(io.Discard, c); c.Close() }(c)
		}
	}()
	var pmu sync.Mutex
	var seen []string
	passthrough := http.HandlerFunc(func(w http.ResponseWriter, r *http.Request) {
		pmu.Lock()
		seen = append(seen, r.Method+" "+r.URL.RequestURI()+" upgrade="+r.Header.Get("Upgrade")+" marker="+r.Header.Get("X-Verif-Marker"))
		pmu.Unlock()
		w.Header().Set("X-Verif-Passthrough", "yes")
		w.WriteHeader(200)
		w.Write([]byte("passthrough"))
	})
	srv := httptest.NewServer(Handler(ln.Addr().(*net.TCPAddr).Port, passthrough))
	defer srv.Close()
	paths := []string{StreamingPath, "/", "/other", StreamingPath + "/", StreamingPath + "x", strings.TrimSuffix(StreamingPath, "6"), strings.ToUpper(StreamingPath), "/prefix" + StreamingPath, StreamingPath + "?q=1"}
	for _, p := range paths {
		for _, upgrade := range []bool{false, true} {
			pmu.Lock()
			seen = nil
			pmu.Unlock()
			tmu.Lock()
			before := tcpConns
			tmu.Unlock()
			marker := fmt.Sprintf("m-%v-%x", upgrade, sha256.Sum256([]byte(p)))[:16]
			res := map[string]interface{}{"kind": "route", "path": p, "upgrade": upgrade}
			if upgrade {
				d := websocket.Dialer{HandshakeTimeout: 3 * time.Second}
				c, resp, err := d.Dial("ws"+strings.TrimPrefix(srv.URL, "http")+p, http.Header{"X-Verif-Marker": {marker}})
				if err == nil {
					res["handshake"] = "accepted"
					c.WriteMessage(websocket.TextMessage, []byte("6869"))
					time.Sleep(100 * time.Millisecond)
					c.Close()
				} else {
					res["handshake"] = "refused"
					if resp != nil {
						res["status"] = resp.StatusCode
						res["passthrough_header"] = resp.Header.Get("X-Verif-Passthrough")
					}
				}
			} else {
				req, _ := http.NewRequest("POST", srv.URL+p, strings.NewReader("plain-body"))
				req.Header.Set("X-Verif-Marker", marker)
				resp, err := http.DefaultClient.Do(req)
				if err != nil {
					res["err"] = err.Error()
				} else {
					b, _ := io.ReadAll(resp.Body)
					resp.Body.Close()
					res["status"] = resp.StatusCode
					res["passthrough_header"] = resp.Header.Get("X-Verif-Passthrough")
					res["body"] = string(b)
				}
			}
			time.Sleep(50 * time.Millisecond)
			pmu.Lock()
			res["passthrough_saw"] = append([]string{}, seen...)
			pmu.Unlock()
			tmu.Lock()
			res["tcp_connections"] = tcpConns - before
			tmu.Unlock()
			res["marker"] = marker
			res["streaming_path"] = StreamingPath
			out.emit(res)
		}
	}
}

// TestVerifC16SlowReader: a peer that stops reading for a while (back-pressure through the whole bridge)
// must not be cut off: nobody has closed, so nobody may see end-of-stream, and when it resumes it gets
// every byte.
func TestVerifC16SlowReader(t *testing.T) {
	out := verifOpenOut(t)
	defer out.close()
	const total = 48 << 20
	pause := 12 * time.Second
	type srvRes struct {
		written int
		err     string
	}
	sres := make(chan srvRes, 1)
	b := startVerifBridge(t, func(sc *verifSrvConn) {
		buf := make([]byte, 64*1024)
		for i := range buf {
			buf[i] = byte(i * 7)
		}
		w := 0
		var werr error
		for w < total && werr == nil {
			var n int
			n, werr = sc.c.Write(buf)
			w += n
		}
		r := srvRes{written: w}
		if werr != nil {
			r.err = werr.Error()
		}
		sres <- r
		sc.c.Close()
	})
	defer b.stop()
	c, err := net.Dial("tcp", b.frontAddr)
	if err != nil {
		out.emit(map[string]interface{}{"kind": "slow-reader", "err": err.Error()})
		return
	}
	defer c.Close()
	got := 0
	buf := make([]byte, 256*1024)
	for got < 1<<20 {
		n, err := c.Read(buf)
		got += n
		if err != nil {
			break
		}
	}
	time.Sleep(pause)
	var rerr error
	c.SetReadDeadline(time.Now().Add(60 * time.Second))
	for got < total {
		var n int
		n, rerr = c.Read(buf)
		got += n
		if rerr != nil {
			break
		}
	}
	res := map[string]interface{}{"kind": "slow-reader", "sent_target": total, "client_received": got, "pause_ms": pause.Milliseconds()}
	if rerr != nil {
		res["client_err"] = rerr.Error()
	}
	select {
	case r := <-sres:
		res["server_written"] = r.written
		res["server_err"] = r.err
	case <-time.After(10 * time.Second):
		res["server_err"] = "server still writing"
	}
	out.emit(res)
}

// TestVerifC15Idle: a direction that stays silent for longer than any plausible I/O timeout while the other
// direction has just been written to.  Nothing was closed, so the bytes sent after the gap must arrive.
func TestVerifC15Idle(t *testing.T) {
	out := verifOpenOut(t)
	defer out.close()
	gap := 12 * time.Second
	b := startVerifBridge(t, func(sc *verifSrvConn) {
		defer sc.c.Close()
		buf := make([]byte, 64)
		n, err := sc.c.Read(buf)
		if err != nil {
			return
		}
		switch string(buf[:n]) {
		case "request-then-slow-reply":
			time.Sleep(gap)
			sc.c.Write([]byte("late reply"))
		case "server-push-pause-push":
			sc.c.Write([]byte("first;"))
			time.Sleep(gap)
			sc.c.Write([]byte("second"))
		}
		// wait for the client to finish
		sc.c.SetReadDeadline(time.Now().Add(20 * time.Second))
		sc.c.Read(buf)
	})
	defer b.stop()
	var wg sync.WaitGroup
	for _, sc := range []struct{ name, want string }{{"request-then-slow-reply", "late reply"}, {"server-push-pause-push", "first;second"}} {
		wg.Add(1)
		go func(name, want string) {
			defer wg.Done()
			res := map[string]interface{}{"kind": "idle", "scenario": name, "gap_ms": gap.Milliseconds(), "expected": want}
			defer func() { out.emit(res) }()
			c, err := net.Dial("tcp", b.frontAddr)
			if err != nil {
				res["err"] = err.Error()
				return
			}
			defer c.Close()
			start := time.Now()
			c.Write([]byte(name))
			var got []byte
			buf := make([]byte, 64)
			c.SetReadDeadline(time.Now().Add(gap + 8*time.Second))
			for len(got) < len(want) {
				n, err := c.Read(buf)
				got = append(got, buf[:n]...)
				if err != nil {
					res["client_err"] = err.Error()
					res["client_err_after_ms"] = time.Since(start).Milliseconds()
					break
				}
			}
			res["received"] = string(got)
		}(sc.name, sc.want)
	}
	wg.Wait()
}

// TestVerifC16Down: the TCP server behind the bridge is gone (listener closed).  A client that connects through
// the bridge must see its connection end; connections made after the server is back work as before.
func TestVerifC16Down(t *testing.T) {
	out := verifOpenOut(t)
	defer out.close()
	b := startVerifBridge(t, func(sc *verifSrvConn) {
		defer sc.c.Close()
		io.Copy(sc.c, sc.c)
	})
	defer b.stop()
	// sanity: the bridge works while the server is up
	try := func(phase string) {
		res := map[string]interface{}{"kind": "server-down", "phase": phase}
		defer func() { out.emit(res) }()
		c, err := net.Dial("tcp", b.frontAddr)
		if err != nil {
			res["err"] = err.Error()
			return
		}
		defer c.Close()
		start := time.Now()
		c.Write([]byte("hello"))
		buf := make([]byte, 16)
		c.SetReadDeadline(time.Now().Add(5 * time.Second))
		n, err := c.Read(buf)
		res["received"] = string(buf[:n])
		res["delay_ms"] = time.Since(start).Milliseconds()
		if err != nil {
			res["read_err"] = err.Error()
			if ne, ok := err.(net.Error); ok && ne.Timeout() {
				res["timed_out"] = true
			} else {
				res["ended"] = true
			}
		}
	}
	try("up")
	b.srvLn.Close()
	time.Sleep(100 * time.Millisecond)
	for i := 0; i < 3; i++ {
		try("down")
	}
}

// TestVerifC16SlowUpload: a client uploads for longer than any plausible timer in the bridge (21 s) to a server that reads
// at a steady 4 MiB/s.  Nobody closes: every byte must arrive and neither side may see its connection end.
func TestVerifC16SlowUpload(t *testing.T) {
	out := verifOpenOut(t)
	defer out.close()
	const total = 84 << 20
	type srvRes struct {
		read int
		err  string
	}
	sres := make(chan srvRes, 1)
	b := startVerifBridge(t, func(sc *verifSrvConn) {
		buf := make([]byte, 256*1024)
		r := 0
		var rerr error
		for r < total && rerr == nil {
			var n int
			n, rerr = io.ReadFull(sc.c, buf)
			r += n
			time.Sleep(60 * time.Millisecond)
		}
		res := srvRes{read: r}
		if rerr != nil {
			res.err = rerr.Error()
		}
		sres <- res
		sc.c.Write([]byte("done"))
		sc.c.Close()
	})
	defer b.stop()
	c, err := net.Dial("tcp", b.frontAddr)
	if err != nil {
		out.emit(map[string]interface{}{"kind": "slow-upload", "err": err.Error()})
		return
	}
	defer c.Close()
	start := time.Now()
	buf := make([]byte, 64*1024)
	for i := range buf {
		buf[i] = byte(i * 13)
	}
	w := 0
	var werr error
	for w < total && werr == nil {
		var n int
		c.SetWriteDeadline(time.Now().Add(30 * time.Second))
		n, werr = c.Write(buf)
		w += n
	}
	res := map[string]interface{}{"kind": "slow-upload", "sent_target": total, "client_written": w, "upload_ms": time.Since(start).Milliseconds()}
	if werr != nil {
		res["client_err"] = werr.Error()
	}
	select {
	case r := <-sres:
		res["server_read"] = r.read
		res["server_err"] = r.err
	case <-time.After(40 * time.Second):
		res["server_err"] = "server still reading"
	}
	ack := make([]byte, 4)
	c.SetReadDeadline(time.Now().Add(5 * time.Second))
	if _, err := io.ReadFull(c, ack); err != nil || string(ack) != "done" {
		res["ack_err"] = fmt.Sprint(err)
	}
	out.emit(res)
}

// TestVerifC15WriteThenClose: one end writes its whole stream and closes at once while the other end is slow to read
// (it starts late and takes 64 KiB every few milliseconds).  The reader must get every byte and then a clean end of stream.
func TestVerifC15WriteThenClose(t *testing.T) {
	out := verifOpenOut(t)
	defer out.close()
	const total = 4 << 20
	mkStream := func(seed byte) []byte {
		b := make([]byte, total)
		for i := range b {
			b[i] = byte(i*31) ^ seed ^ byte(i>>11)
		}
		return b
	}
	slowRead := func(c net.Conn) (int, string, string) {
		time.Sleep(200 * time.Millisecond)
		h := sha256.New()
		buf := make([]byte, 64*1024)
		n := 0
		c.SetReadDeadline(time.Now().Add(30 * time.Second))
		for {
			k, err := c.Read(buf)
			h.Write(buf[:k])
			n += k
			if err != nil {
				e := ""
				if err != io.EOF {
					e = err.Error()
				}
				return n, hex.EncodeToString(h.Sum(nil)[:8]), e
			}
			time.Sleep(3 * time.Millisecond)
		}
	}
	for _, dir := range []string{"client-writes-server-reads-slowly", "server-writes-client-reads-slowly"} {
		type rr struct {
			n    int
			sum  string
			errs string
		}
		srvRes := make(chan rr, 1)
		data := mkStream(byte(len(dir)))
		b := startVerifBridge(t, func(sc *verifSrvConn) {
			if dir == "client-writes-server-reads-slowly" {
				n, sum, e := slowRead(sc.c)
				srvRes <- rr{n, sum, e}
				sc.c.Close()
				return
			}
			sc.c.Write(data)
			sc.c.Close()
		})
		res := map[string]interface{}{"kind": "write-then-close", "direction": dir, "sent": total, "sent_sum": verifSum(data)}
		c, err := net.Dial("tcp", b.frontAddr)
		if err != nil {
			res["err"] = err.Error()
			out.emit(res)
			b.stop()
			continue
		}
		if dir == "client-writes-server-reads-slowly" {
			c.Write(data)
			c.Close()
			select {
			case r := <-srvRes:
				res["received"], res["received_sum"], res["read_err"] = r.n, r.sum, r.errs
			case <-time.After(40 * time.Second):
				res["read_err"] = "server still reading after 40 s"
			}
		} else {
			n, sum, e := slowRead(c)
			res["received"], res["received_sum"], res["read_err"] = n, sum, e
			c.Close()
		}
		out.emit(res)
		b.stop()
	}
}

// TestVerifC16AbortThenConcurrent: some clients hang up in the middle of a download (the bridge's writes towards them
// fail); afterwards several downloads run at the same time through the same bridge processes.  Each of them must get
// exactly the stream its own server connection wrote, followed by a clean end of stream.
func TestVerifC16AbortThenConcurrent(t *testing.T) {
	out := verifOpenOut(t)
	defer out.close()
	const total = 12 << 20
	pattern := func(id byte, off int, b []byte) {
		for i := range b {
			p := off + i
			b[i] = byte(p*7) ^ id ^ byte(p>>13)
		}
	}
	b := startVerifBridge(t, func(sc *verifSrvConn) {
		defer sc.c.Close()
		one := make([]byte, 1)
		if _, err := io.ReadFull(sc.c, one); err != nil {
			return
		}
		buf := make([]byte, 64*1024)
		for off := 0; off < total; off += len(buf) {
			pattern(one[0], off, buf)
			if _, err := sc.c.Write(buf); err != nil {
				return
			}
		}
	})
	defer b.stop()
	download := func(id byte, stopAfter int) (int, bool, string) {
		c, err := net.Dial("tcp", b.frontAddr)
		if err != nil {
			return 0, false, err.Error()
		}
		defer c.Close()
		c.Write([]byte{id})
		buf := make([]byte, 64*1024)
		want := make([]byte, 64*1024)
		n, ok := 0, true
		c.SetReadDeadline(time.Now().Add(60 * time.Second))
		for {
			k, err := c.Read(buf)
			if k > 0 {
				pattern(id, n, want[:k])
				if !bytes.Equal(buf[:k], want[:k]) {
					ok = false
				}
				n += k
			}
			if stopAfter > 0 && n >= stopAfter {
				return n, ok, "aborted by the client"
			}
			if err != nil {
				if err == io.EOF {
					return n, ok, ""
				}
				return n, ok, err.Error()
			}
		}
	}
	var wg sync.WaitGroup
	for i := 0; i < 8; i++ {
		wg.Add(1)
		go func(i int) { defer wg.Done(); download(byte(100+i), 256*1024) }(i)
	}
	wg.Wait()
	time.Sleep(300 * time.Millisecond)
	type res struct {
		N   int    `json:"received"`
		OK  bool   `json:"content_ok"`
		Err string `json:"err"`
	}
	results := make([]res, 8)
	for i := 0; i < 8; i++ {
		wg.Add(1)
		go func(i int) {
			defer wg.Done()
			n, ok, e := download(byte(1+i), 0)
			results[i] = res{n, ok, e}
		}(i)
	}
	wg.Wait()
	bad := 0
	for _, r := range results {
		if r.N != total || !r.OK || r.Err != "" {
			bad++
		}
	}
	out.emit(map[string]interface{}{"kind": "abort-then-concurrent", "aborted_downloads": 8, "concurrent_downloads": 8, "bytes_each": total, "bad": bad, "results": results})
}

// TestVerifC15Passthrough: requests that are not bridge streams, sent as raw bytes to the real tcp-bridge-backend binary,
// which must hand them to the backend port unchanged: method, request target (path and query exactly as sent, also
// queries with ';', a stray '%', repeated or unsorted parameters), Host, end-to-end header fields and body.  The backend
// is a raw TCP server that records what arrives.
func TestVerifC15Passthrough(t *testing.T) {
	out := verifOpenOut(t)
	defer out.close()
	bb := os.Getenv("VERIF_BRIDGE_BACKEND_BIN")
	if bb == "" {
		t.Skip("bridge binaries not provided")
	}
	ln, err := net.Listen("tcp", "127.0.0.1:0")
	if err != nil {
		t.Fatal(err)
	}
	defer ln.Close()
	type seenReq struct {
		Line   string
		Header http.Header
		Host   string
		Body   string
	}
	var mu sync.Mutex
	seen := map[string]seenReq{}
	go func() {
		for {
			c, err := ln.Accept()
			if err != nil {
				return
			}
			go func(c net.Conn) {
				defer c.Close()
				br := bufio.NewReader(c)
				for {
					line, err := br.ReadString('\n')
					if err != nil {
						return
					}
					// the header and body through net/http's parser, the request line as the bytes that arrived
					req, err := http.ReadRequest(bufio.NewReader(io.MultiReader(strings.NewReader(line), br)))
					if err != nil {
						return
					}
					body, _ := io.ReadAll(req.Body)
					mu.Lock()
					seen[req.Header.Get("X-Verif-Case")] = seenReq{Line: strings.TrimRight(line, "\r\n"), Header: req.Header, Host: req.Host, Body: string(body)}
					mu.Unlock()
					fmt.Fprintf(c, "HTTP/1.1 200 OK\r\nContent-Length: 2\r\nConnection: close\r\n\r\nok")
					return
				}
			}(c)
		}
	}()
	bport := verifFreePort()
	cmd := exec.Command(bb, "-frontend-port", fmt.Sprint(bport), "-backend-port", fmt.Sprint(ln.Addr().(*net.TCPAddr).Port))
	if err := cmd.Start(); err != nil {
		t.Fatal(err)
	}
	defer func() { cmd.Process.Kill(); cmd.Wait() }()
	addr := fmt.Sprintf("127.0.0.1:%d", bport)
	for i := 0; i < 100; i++ {
		if c, e := net.Dial("tcp", addr); e == nil {
			c.Close()
			break
		}
		time.Sleep(50 * time.Millisecond)
	}
	targets := []string{"/", "/search?q=a&lang=en", "/search?q=a;b&lang=en&first=1", "/x?p=%zz&ok=1", "/x?z=1&a=2&z=0", "/x?a=%41%2f+b", "/a%2Fb/c%20d?x=%3F", "/p?", "/p?&&", "/p?k",
		"/p?k=v;k2=v2", "/very/" + strings.Repeat("long/", 300) + "?q=" + strings.Repeat("v", 3000), "/stream", "/streaming", "/x?url=http://other.example/?a=b%26c"}
	for i, tg := range targets {
		method := []string{"GET", "POST", "PUT", "DELETE", "OPTIONS"}[i%5]
		body := ""
		if method == "POST" || method == "PUT" {
			body = strings.Repeat(fmt.Sprintf("body-%d;", i), 1+i*37)
		}
		cs := fmt.Sprintf("pt-%d", i)
		var raw bytes.Buffer
		fmt.Fprintf(&raw, "%s %s HTTP/1.1\r\nHost: bridged.example:8443\r\nX-Verif-Case: %s\r\nX-Custom: one\r\nX-Custom: two\r\nCookie: a=1; b=2\r\nAccept: */*\r\nConnection: close\r\n", method, tg, cs)
		if body != "" {
			fmt.Fprintf(&raw, "Content-Type: application/octet-stream\r\nContent-Length: %d\r\n", len(body))
		}
		raw.WriteString("\r\n" + body)
		res := map[string]interface{}{"kind": "passthrough", "case": cs, "method": method, "target": tg, "body_len": len(body), "body_sum": verifSum([]byte(body))}
		c, err := net.Dial("tcp", addr)
		if err != nil {
			res["err"] = err.Error()
			out.emit(res)
			continue
		}
		c.SetDeadline(time.Now().Add(10 * time.Second))
		c.Write(raw.Bytes())
		resp, err := http.ReadResponse(bufio.NewReader(c), nil)
		if err != nil {
			res["err"] = "no response: " + err.Error()
		} else {
			io.Copy(io.Discard, resp.Body)
			res["status"] = resp.StatusCode
		}
		c.Close()
		mu.Lock()
		s, ok := seen[cs]
		mu.Unlock()
		res["reached_backend"] = ok
		if ok {
			res["seen_line"], res["seen_host"], res["seen_custom"], res["seen_cookie"] = s.Line, s.Host, s.Header.Values("X-Custom"), s.Header.Get("Cookie")
			res["seen_body_len"], res["seen_body_sum"] = len(s.Body), verifSum([]byte(s.Body))
		}
		out.emit(res)
	}
}

// TestVerifC16Stall: the websocket peer of the frontend accepts the TCP connection and never answers the upgrade request (a
// wedged backend half, a proxy with no agent polling).  Client A hangs up after a second, client B stays and waits.  The
// frontend must give the set-up up within bounded time: B observes end of stream and both half-open websocket sockets are
// released (the bound in the source is the dialer's 45 s handshake timeout; the run allows 65 s).
func TestVerifC16Stall(t *testing.T) {
	out := verifOpenOut(t)
	defer out.close()
	fb := os.Getenv("VERIF_BRIDGE_FRONTEND_BIN")
	if fb == "" {
		t.Skip("bridge binaries not provided")
	}
	ln, err := net.Listen("tcp", "127.0.0.1:0")
	if err != nil {
		t.Fatal(err)
	}
	defer ln.Close()
	start := time.Now()
	var mu sync.Mutex
	accepted, released := 0, []int64{}
	go func() {
		for {
			c, err := ln.Accept()
			if err != nil {
				return
			}
			mu.Lock()
			accepted++
			mu.Unlock()
			go func(c net.Conn) {
				// read the upgrade request and whatever follows, answer nothing; returns when the frontend lets go
				io.Copy(io.Discard, c)
				mu.Lock()
				released = append(released, time.Since(start).Milliseconds())
				mu.Unlock()
				c.Close()
			}(c)
		}
	}()
	fport := verifFreePort()
	cmd := exec.Command(fb, "-frontend-port", fmt.Sprint(fport), "-backend", fmt.Sprintf("ws://%s", ln.Addr().String()))
	if err := cmd.Start(); err != nil {
		t.Fatal(err)
	}
	defer func() { cmd.Process.Kill(); cmd.Wait() }()
	addr := fmt.Sprintf("127.0.0.1:%d", fport)
	for i := 0; i < 100; i++ {
		if c, e := net.Dial("tcp", addr); e == nil {
			c.Close()
			break
		}
		time.Sleep(50 * time.Millisecond)
	}
	time.Sleep(300 * time.Millisecond)
	mu.Lock()
	probe := accepted
	mu.Unlock()
	start = time.Now()
	res := map[string]interface{}{"kind": "stall", "bound_ms": 65000}
	a, errA := net.Dial("tcp", addr)
	b, errB := net.Dial("tcp", addr)
	if errA != nil || errB != nil {
		res["err"] = fmt.Sprint(errA, errB)
		out.emit(res)
		return
	}
	a.Write([]byte("hello from A"))
	b.Write([]byte("hello from B"))
	time.Sleep(time.Second)
	a.Close()
	bEOF := make(chan int64, 1)
	go func() {
		io.Copy(io.Discard, b)
		bEOF <- time.Since(start).Milliseconds()
	}()
	select {
	case ms := <-bEOF:
		res["waiting_client_saw_end_after_ms"] = ms
	case <-time.After(65 * time.Second):
		res["waiting_client_saw_end_after_ms"] = -1
	}
	b.Close()
	time.Sleep(500 * time.Millisecond)
	mu.Lock()
	// (including the ones opened for the start-up probes, which are clients that hung up at once)
	_ = probe
	res["websocket_sockets_opened"], res["websocket_sockets_released_after_ms"] = accepted, append([]int64{}, released...)
	mu.Unlock()
	out.emit(res)
}

// TestVerifC16StalledNeighbours: two bridged connections are stalled by ordinary back-pressure, one in each direction (a
// client that stops reading a bulk download, a server that does not read a bulk upload), both of their endpoints alive.
// Other connections through the same two processes are opened meanwhile: each exchanges a greeting and a reply and is
// closed by its client; the server must see the reply and end of stream, the client the greeting, within the bound.
func TestVerifC16StalledNeighbours(t *testing.T) {
	out := verifOpenOut(t)
	defer out.close()
	var mu sync.Mutex
	order := 0
	type nres struct {
		Greeted  bool   `json:"greeting_written"`
		Got      string `json:"server_received"`
		EOFAfter int64  `json:"server_eof_after_ms"` // after the greeting was written; -1 = none within the bound
	}
	nb := map[string]*nres{}
	release := make(chan struct{})
	b := startVerifBridge(t, func(sc *verifSrvConn) {
		mu.Lock()
		order++
		k := order
		mu.Unlock()
		switch k {
		case 1:
			// bulk download to a client that stops reading
			buf := make([]byte, 64*1024)
			for {
				if _, err := sc.c.Write(buf); err != nil {
					return
				}
			}
		case 2:
			// bulk upload that is not read
			<-release
			sc.c.Close()
		default:
			r := &nres{EOFAfter: -1}
			start := time.Now()
			_, err := sc.c.Write([]byte("greeting from the server\n"))
			r.Greeted = err == nil
			sc.c.SetReadDeadline(time.Now().Add(5 * time.Second))
			data, rerr := io.ReadAll(sc.c)
			r.Got = string(data)
			if rerr == nil {
				r.EOFAfter = time.Since(start).Milliseconds()
			}
			mu.Lock()
			nb[strings.TrimSpace(strings.TrimPrefix(r.Got, "reply "))] = r
			mu.Unlock()
			sc.c.Close()
		}
	})
	defer b.stop()
	defer close(release)
	res := map[string]interface{}{"kind": "stalled-neighbours", "bound_ms": 5000}
	a1, err1 := net.Dial("tcp", b.frontAddr)
	if err1 == nil {
		defer a1.Close()
		io.ReadFull(a1, make([]byte, 4096)) // the download has started; from here on the client does not read
	}
	time.Sleep(300 * time.Millisecond)
	a2, err2 := net.Dial("tcp", b.frontAddr)
	if err1 != nil || err2 != nil {
		res["err"] = fmt.Sprint(err1, err2)
		out.emit(res)
		return
	}
	defer a2.Close()
	upDone := make(chan int, 1)
	go func() {
		// the upload: blocks once every buffer on the way is full
		buf := make([]byte, 64*1024)
		w := 0
		a2.SetWriteDeadline(time.Now().Add(20 * time.Second))
		for {
			n, err := a2.Write(buf)
			w += n
			if err != nil {
				break
			}
		}
		upDone <- w
	}()
	time.Sleep(2500 * time.Millisecond) // both stalled connections have filled their buffers by now
	type cres struct {
		Name     string `json:"name"`
		Greeting string `json:"client_received"`
		Err      string `json:"err,omitempty"`
	}
	var clients []cres
	for k := 0; k < 4; k++ {
		name := fmt.Sprintf("n%d", k)
		cr := cres{Name: name}
		c, err := net.Dial("tcp", b.frontAddr)
		if err != nil {
			cr.Err = err.Error()
			clients = append(clients, cr)
			continue
		}
		c.SetReadDeadline(time.Now().Add(5 * time.Second))
		line := make([]byte, 25)
		n, rerr := io.ReadFull(c, line)
		cr.Greeting = string(line[:n])
		if rerr != nil {
			cr.Err = "greeting: " + rerr.Error()
		}
		c.Write([]byte("reply " + name))
		c.Close()
		clients = append(clients, cr)
	}
	time.Sleep(5500 * time.Millisecond)
	mu.Lock()
	servers := map[string]*nres{}
	for k, v := range nb {
		servers[k] = v
	}
	mu.Unlock()
	res["neighbour_clients"], res["neighbour_servers"] = clients, servers
	out.emit(res)
}

func verifSocketFDs(pid int) int {
	ents, err := os.ReadDir(fmt.Sprintf("/proc/%d/fd", pid))
	if err != nil {
		return -1
	}
	n := 0
	for _, e := range ents {
		if t, err := os.Readlink(fmt.Sprintf("/proc/%d/fd/%s", pid, e.Name())); err == nil && strings.HasPrefix(t, "socket:") {
			n++
		}
	}
	return n
}

// TestVerifC16ServerCloseIdleClient: the TCP server says something and closes; the clients read to end of stream and then
// simply keep their sockets (a pooled connection, a client that is slow to clean up).  Both endpoints of the bridged
// connection are done: the frontend process must let go of its two sockets per connection.
func TestVerifC16ServerCloseIdleClient(t *testing.T) {
	out := verifOpenOut(t)
	defer out.close()
	b := startVerifBridge(t, func(sc *verifSrvConn) {
		sc.c.Write([]byte("goodbye from the server\n"))
		sc.c.Close()
	})
	defer b.stop()
	time.Sleep(300 * time.Millisecond)
	base := verifSocketFDs(b.front.Process.Pid)
	const n = 10
	var clients []net.Conn
	eofs := 0
	for k := 0; k < n; k++ {
		c, err := net.Dial("tcp", b.frontAddr)
		if err != nil {
			continue
		}
		clients = append(clients, c)
		c.SetReadDeadline(time.Now().Add(5 * time.Second))
		if data, err := io.ReadAll(c); err == nil && string(data) == "goodbye from the server\n" {
			eofs++
		}
	}
	time.Sleep(2 * time.Second)
	held := verifSocketFDs(b.front.Process.Pid)
	for _, c := range clients {
		c.Close()
	}
	time.Sleep(500 * time.Millisecond)
	after := verifSocketFDs(b.front.Process.Pid)
	out.emit(map[string]interface{}{"kind": "server-close-idle-client", "connections": n, "clients_saw_data_and_eof": eofs, "frontend_sockets_before": base, "frontend_sockets_2s_after_the_server_closed": held, "frontend_sockets_after_clients_closed": after})
}
