//go:build verif

package banner

import (
	"bufio"
	"context"
	"crypto/sha256"
	"encoding/hex"
	"fmt"
	"io"
	"net"
	"net/http"
	"net/http/httptest"
	"net/http/httputil"
	"net/url"
	"strings"
	"sync"
	"testing"
)

func verifSum(b []byte) string {
	h := sha256.Sum256(b)
	return hex.EncodeToString(h[:8])
}

// TestVerifC14Banner: the same scripted backend response through banner.Proxy and directly.
func TestVerifC14Banner(t *testing.T) {
	out := verifOpenOut(t)
	defer out.close()
	rng := &verifRng{s: verifSeed()}
	type bresp struct {
		Status int         `json:"status"`
		Fields [][2]string `json:"fields"`
		Body   string      `json:"body"`
	}
	var cur *bresp
	wrapped := http.HandlerFunc(func(w http.ResponseWriter, r *http.Request) {
		for _, f := range cur.Fields {
			w.Header().Add(f[0], f[1])
		}
		w.WriteHeader(cur.Status)
		// two writes: the writer must behave the same for every write
		half := len(cur.Body) / 2
		w.Write([]byte(cur.Body[:half]))
		w.Write([]byte(cur.Body[half:]))
	})
	h, err := Proxy(context.Background(), wrapped, "<b>VERIF-BANNER</b>", "40px", "", nil)
	if err != nil {
		t.Fatal(err)
	}
	methods := []string{"GET", "GET", "GET", "POST", "HEAD", "PUT"}
	accepts := []string{"", "text/html", "text/html,application/xhtml+xml,*/*;q=0.8", "application/json", "*/*", "TEXT/HTML", "text/htmlx"}
	modes := []string{"", "navigate", "nested-navigate", "cors"}
	dests := []string{"", "document", "iframe", "empty"}
	referers := []string{"", "http://verif.example/page", "http://verif.example/other", "http://else.example/page", "::bad url", "/page",
		"http://verif.example:8080/page", "http://verif.example:9090/page", "https://verif.example:8080/page?q=1", "http://verif.example:8080/other"}
	targets := []string{"http://verif.example/page?x=1&y=<z>", "http://verif.example/page?x=1&y=<z>", "http://verif.example:8080/page?x=1&y=<z>", "http://verif.example:8080/page"}
	statuses := []int{200, 200, 200, 201, 204, 301, 304, 404, 500}
	ctypes := []string{"", "text/html", "text/html; charset=utf-8", "application/xhtml+xml", "application/json", "text/plain", "TEXT/HTML", "image/png", "text/htmlish",
		// types that mention html without being an HTML document type
		"application/vnd.ms-htmlhelp", "text/plain; name=\"notes.html\"", "application/octet-stream; name=index.html.gz", "application/vnd.acme.htmlfragment+json"}
	cdisps := []string{"", "", "inline", "attachment; filename=x.html", "ATTACHMENT", "form-data; name=attachment",
		// attachment dispositions whose parameters a strict parser rejects
		"attachment; filename=My Report.html", "attachment; filename=report (1).html", "attachment;filename=", "attachment; filename=\"a.html\"; filename=\"b.html\"", "attachment; filename=r\xc3\xa9sum\xc3\xa9.html", "attachment;", "inline; filename=attachment.html"}
	bodies := []string{"", "x", "<html><head><title>t</title></head><body>hello</body></html>", strings.Repeat("A", 5000), "{\"a\":1}"}
	n := 1500
	if verifThorough() {
		n = 60000
	}
	for i := 0; i < n; i++ {
		br := &bresp{Status: statuses[rng.intn(len(statuses))], Body: bodies[rng.intn(len(bodies))]}
		if ct := ctypes[rng.intn(len(ctypes))]; ct != "" {
			br.Fields = append(br.Fields, [2]string{"Content-Type", ct})
			if rng.intn(8) == 0 {
				br.Fields = append(br.Fields, [2]string{"Content-Type", ctypes[1+rng.intn(len(ctypes)-1)]})
			}
		}
		if cd := cdisps[rng.intn(len(cdisps))]; cd != "" {
			br.Fields = append(br.Fields, [2]string{"Content-Disposition", cd})
		}
		if rng.intn(3) == 0 {
			br.Fields = append(br.Fields, [2]string{"X-Frame-Options", "deny"})
		}
		if rng.intn(3) == 0 {
			br.Fields = append(br.Fields, [2]string{"Cache-Control", "max-age=3600"})
		}
		if rng.intn(4) == 0 {
			br.Fields = append(br.Fields, [2]string{"Content-Encoding", []string{"identity", "gzip", "br"}[rng.intn(3)]})
		}
		corpus := i < 16
		if corpus {
			// corpus: compressed HTML pages requested by a browser, top-level and already framed in each of the three ways
			br = &bresp{Status: 200, Body: bodies[2]}
			br.Fields = append(br.Fields, [2]string{"Content-Type", []string{"text/html; charset=utf-8", "application/xhtml+xml"}[i/8]}, [2]string{"Content-Encoding", []string{"gzip", "br"}[i/4%2]}, [2]string{"Vary", "Accept-Encoding"})
		}
		br.Fields = append(br.Fields, [2]string{"Set-Cookie", "k=v"}, [2]string{"X-Other", "o"})
		cur = br
		method := methods[rng.intn(len(methods))]
		target := targets[rng.intn(len(targets))]
		acc, mode, dest, ref := accepts[rng.intn(len(accepts))], modes[rng.intn(len(modes))], dests[rng.intn(len(dests))], referers[rng.intn(len(referers))]
		if corpus {
			method, target, acc, mode, dest, ref = "GET", targets[3], accepts[2], "", "", ""
			switch i % 4 {
			case 0:
				mode = "nested-navigate"
			case 1:
				dest = "iframe"
			case 2:
				ref = targets[3]
			}
		}
		req := httptest.NewRequest(method, target, nil)
		if acc != "" {
			req.Header.Set("Accept", acc)
		}
		if mode != "" {
			req.Header.Set("Sec-Fetch-Mode", mode)
		}
		if dest != "" {
			req.Header.Set("Sec-Fetch-Dest", dest)
		}
		if ref != "" {
			req.Header.Set("Referer", ref)
		}
		rec := httptest.NewRecorder()
		h.ServeHTTP(rec, req)
		res := rec.Result()
		body := rec.Body.Bytes()
		refOK, refHost, refPath := false, "", ""
		if ref != "" {
			if u, err := url.Parse(ref); err == nil {
				refOK, refHost, refPath = true, u.Host, u.Path
			}
		}
		out.emit(map[string]interface{}{"kind": "banner", "referer_ok": refOK, "referer_host": refHost, "referer_path": refPath, "method": method, "accept": acc, "sec_fetch_mode": mode, "sec_fetch_dest": dest, "referer": ref,
			"host": req.Host, "path": req.URL.Path, "url": req.URL.String(), "backend": br,
			"status": res.StatusCode, "header": res.Header, "body_len": len(body), "body_sum": verifSum(body), "orig_sum": verifSum([]byte(br.Body)),
			"has_banner": strings.Contains(string(body), "VERIF-BANNER"), "embeds_url": strings.Contains(string(body), "src=\""+req.URL.String()+"\"")})
	}
}

// TestVerifC14Interim: backends that send informational responses before the final one, through the real chain
// client -> httptest server -> banner.Proxy -> httputil.ReverseProxy -> raw TCP backend.  The final status must reach the
// client; a 200 HTML page is framed, everything else arrives as the backend sent it.
func TestVerifC14Interim(t *testing.T) {
	out := verifOpenOut(t)
	defer out.close()
	type sc struct {
		Interim []int  `json:"interim"`
		Status  int    `json:"status"`
		CType   string `json:"content_type"`
		Body    string `json:"body"`
	}
	var cur sc
	var mu sync.Mutex
	ln, err := net.Listen("tcp", "127.0.0.1:0")
	if err != nil {
		t.Fatal(err)
	}
	defer ln.Close()
	go func() {
		for {
			c, err := ln.Accept()
			if err != nil {
				return
			}
			go func(c net.Conn) {
				defer c.Close()
				br := bufio.NewReader(c)
				for {
					if _, err := http.ReadRequest(br); err != nil {
						return
					}
					mu.Lock()
					s := cur
					mu.Unlock()
					for _, code := range s.Interim {
						fmt.Fprintf(c, "HTTP/1.1 %d %s\r\nLink: </s.css>; rel=preload\r\n\r\n", code, http.StatusText(code))
					}
					// chunked, not length-delimited: in the agent the response writer behind the banner forces chunked uploads, so a
					// Content-Length of the original page never constrains the frame page; here net/http's server would enforce it
					fmt.Fprintf(c, "HTTP/1.1 %d %s\r\nContent-Type: %s\r\nTransfer-Encoding: chunked\r\n\r\n", s.Status, http.StatusText(s.Status), s.CType)
					if len(s.Body) > 0 {
						fmt.Fprintf(c, "%x\r\n%s\r\n", len(s.Body), s.Body)
					}
					fmt.Fprintf(c, "0\r\n\r\n")
				}
			}(c)
		}
	}()
	u, _ := url.Parse("http://" + ln.Addr().String())
	h, err := Proxy(context.Background(), httputil.NewSingleHostReverseProxy(u), "<b>verif-banner</b>", "40px", "", nil)
	if err != nil {
		t.Fatal(err)
	}
	srv := httptest.NewServer(h)
	defer srv.Close()
	page := "<html><head></head><body>page</body></html>"
	for ci, s := range []sc{{nil, 200, "text/html", page}, {[]int{103}, 200, "text/html", page}, {[]int{103}, 404, "text/html", "<html>not found</html>"}, {[]int{103}, 200, "application/json", `{"a":1}`},
		{[]int{102}, 500, "text/plain", "boom"}, {[]int{103, 103}, 302, "text/html", ""}, {[]int{100}, 201, "text/html", page}} {
		mu.Lock()
		cur = s
		mu.Unlock()
		client := &http.Client{CheckRedirect: func(*http.Request, []*http.Request) error { return http.ErrUseLastResponse }}
		req, _ := http.NewRequest("GET", srv.URL+"/p", nil)
		req.Header.Set("Accept", "text/html,application/xhtml+xml")
		res := map[string]interface{}{"kind": "interim", "index": ci, "backend": s}
		resp, err := client.Do(req)
		if err != nil {
			res["err"] = err.Error()
			out.emit(res)
			continue
		}
		b, _ := io.ReadAll(resp.Body)
		resp.Body.Close()
		res["status"] = resp.StatusCode
		res["content_type"] = resp.Header.Get("Content-Type")
		res["body_is_backends"] = string(b) == s.Body
		res["body_has_banner"] = strings.Contains(string(b), "verif-banner")
		out.emit(res)
	}
}
