//go:build verif

package banner

import (
	"context"
	"crypto/sha256"
	"encoding/hex"
	"net/http"
	"net/http/httptest"
	"net/url"
	"strings"
	"testing"
)

func verifSum(b []byte) string {
	h := sha256.Sum256(b)
	return hex.EncodeToString(h[:8])
}

// TestVerifC14Banner: the same scripted backend response through banner.Proxy and directly.
func TestVerifC14Banner(t *testing.T) {
	out := verifOpenOut(t)
	defer out.close()
	rng := &verifRng{s: verifSeed()}
	type bresp struct {
		Status int         `json:"status"`
		Fields [][2]string `json:"fields"`
		Body   string      `json:"body"`
	}
	var cur *bresp
	wrapped := http.HandlerFunc(func(w http.ResponseWriter, r *http.Request) {
		for _, f := range cur.Fields {
			w.Header().Add(f[0], f[1])
		}
		w.WriteHeader(cur.Status)
		// two writes: the writer must behave the same for every write
		half := len(cur.Body) / 2
		w.Write([]byte(cur.Body[:half]))
		w.Write([]byte(cur.Body[half:]))
	})
	h, err := Proxy(context.Background(), wrapped, "<b>VERIF-BANNER</b>", "40px", "", nil)
	if err != nil {
		t.Fatal(err)
	}
	methods := []string{"GET", "GET", "GET", "POST", "HEAD", "PUT"}
	accepts := []string{"", "text/html", "text/html,application/xhtml+xml,*/*;q=0.8", "application/json", "*/*", "TEXT/HTML", "text/htmlx"}
	modes := []string{"", "navigate", "nested-navigate", "cors"}
	dests := []string{"", "document", "iframe", "empty"}
	referers := []string{"", "http://verif.example/page", "http://verif.example/other", "http://else.example/page", "::bad url", "/page",
		"http://verif.example:8080/page", "http://verif.example:9090/page", "https://verif.example:8080/page?q=1", "http://verif.example:8080/other"}
	targets := []string{"http://verif.example/page?x=1&y=<z>", "http://verif.example/page?x=1&y=<z>", "http://verif.example:8080/page?x=1&y=<z>", "http://verif.example:8080/page"}
	statuses := []int{200, 200, 200, 201, 204, 301, 304, 404, 500}
	ctypes := []string{"", "text/html", "text/html; charset=utf-8", "application/xhtml+xml", "application/json", "text/plain", "TEXT/HTML", "image/png", "text/htmlish"}
	cdisps := []string{"", "", "inline", "attachment; filename=x.html", "ATTACHMENT", "form-data; name=attachment",
		// attachment dispositions whose parameters a strict parser rejects
		"attachment; filename=My Report.html", "attachment; filename=report (1).html", "attachment;filename=", "attachment; filename=\"a.html\"; filename=\"b.html\"", "attachment; filename=r\xc3\xa9sum\xc3\xa9.html", "attachment;", "inline; filename=attachment.html"}
	bodies := []string{"", "x", "<html><head><title>t</title></head><body>hello</body></html>", strings.Repeat("A", 5000), "{\"a\":1}"}
	n := 1500
	if verifThorough() {
		n = 60000
	}
	for i := 0; i < n; i++ {
		br := &bresp{Status: statuses[rng.intn(len(statuses))], Body: bodies[rng.intn(len(bodies))]}
		if ct := ctypes[rng.intn(len(ctypes))]; ct != "" {
			br.Fields = append(br.Fields, [2]string{"Content-Type", ct})
			if rng.intn(8) == 0 {
				br.Fields = append(br.Fields, [2]string{"Content-Type", ctypes[1+rng.intn(len(ctypes)-1)]})
			}
		}
		if cd := cdisps[rng.intn(len(cdisps))]; cd != "" {
			br.Fields = append(br.Fields, [2]string{"Content-Disposition", cd})
		}
		if rng.intn(3) == 0 {
			br.Fields = append(br.Fields, [2]string{"X-Frame-Options", "deny"})
		}
		if rng.intn(3) == 0 {
			br.Fields = append(br.Fields, [2]string{"Cache-Control", "max-age=3600"})
		}
		if rng.intn(4) == 0 {
			br.Fields = append(br.Fields, [2]string{"Content-Encoding", "identity"})
		}
		br.Fields = append(br.Fields, [2]string{"Set-Cookie", "k=v"}, [2]string{"X-Other", "o"})
		cur = br
		method := methods[rng.intn(len(methods))]
		req := httptest.NewRequest(method, targets[rng.intn(len(targets))], nil)
		acc, mode, dest, ref := accepts[rng.intn(len(accepts))], modes[rng.intn(len(modes))], dests[rng.intn(len(dests))], referers[rng.intn(len(referers))]
		if acc != "" {
			req.Header.Set("Accept", acc)
		}
		if mode != "" {
			req.Header.Set("Sec-Fetch-Mode", mode)
		}
		if dest != "" {
			req.Header.Set("Sec-Fetch-Dest", dest)
		}
		if ref != "" {
			req.Header.Set("Referer", ref)
		}
		rec := httptest.NewRecorder()
		h.ServeHTTP(rec, req)
		res := rec.Result()
		body := rec.Body.Bytes()
		refOK, refHost, refPath := false, "", ""
		if ref != "" {
			if u, err := url.Parse(ref); err == nil {
				refOK, refHost, refPath = true, u.Host, u.Path
			}
		}
		out.emit(map[string]interface{}{"kind": "banner", "referer_ok": refOK, "referer_host": refHost, "referer_path": refPath, "method": method, "accept": acc, "sec_fetch_mode": mode, "sec_fetch_dest": dest, "referer": ref,
			"host": req.Host, "path": req.URL.Path, "url": req.URL.String(), "backend": br,
			"status": res.StatusCode, "header": res.Header, "body_len": len(body), "body_sum": verifSum(body), "orig_sum": verifSum([]byte(br.Body)),
			"has_banner": strings.Contains(string(body), "VERIF-BANNER"), "embeds_url": strings.Contains(string(body), "src=\""+req.URL.String()+"\"")})
	}
}
