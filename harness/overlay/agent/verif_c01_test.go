//go:build verif

package main

import (
	"context"
	"fmt"
	"net/http"
	"sync"
	"testing"
	"time"
)

// TestVerifC01Agent: many requests in flight through the real agent code
// (pollForNewRequests -> processOneRequest -> ReadRequest -> forwardRequest ->
// handler chain -> NewResponseForwarder) with adversarial listing order,
// mixed body sizes and backend latencies.  Observed: what the backend saw per
// invocation and what was uploaded under which request ID.
func TestVerifC01Agent(t *testing.T) {
	out := verifOpenOut(t)
	defer out.close()
	rng := &verifRng{s: verifSeed()}
	be := newVerifBackend()
	defer be.srv.Close()
	*proxy = "http://verif-proxy.invalid/"
	*host = be.host()
	hp, err := hostProxy(context.Background(), *host, "", false, false)
	if err != nil {
		t.Fatal(err)
	}
	sizes := []int{0, 1, 2, 1023, 1024, 4095, 4096, 4097, 32767, 32768, 32769, 65537, 300000, 2000000}
	rounds := 8
	if verifThorough() {
		rounds = 150
	}
	var wg sync.WaitGroup
	sem := make(chan struct{}, 4)
	for ri := 0; ri < rounds; ri++ {
		n := 2 + rng.intn(31)
		if ri%4 == 0 {
			n = 48 + rng.intn(17)
		}
		type plan struct {
			id, tok                string
			reqSize, respSize, lat int
		}
		plans := make([]plan, n)
		for i := range plans {
			plans[i] = plan{id: fmt.Sprintf("id-%d-%d-%x", ri, i, rng.next()&0xffffff), tok: fmt.Sprintf("a%dr%dx%x", ri, i, rng.next()&0xffff),
				reqSize: sizes[rng.intn(len(sizes))], respSize: sizes[rng.intn(len(sizes))], lat: rng.intn(40)}
			if rng.intn(5) != 0 && plans[i].reqSize > 70000 {
				plans[i].reqSize = sizes[rng.intn(9)]
			}
			if rng.intn(5) != 0 && plans[i].respSize > 70000 {
				plans[i].respSize = sizes[rng.intn(9)]
			}
		}
		// adversarial grouping: random order, random group sizes, some IDs repeated in later groups
		order := make([]int, n)
		for i := range order {
			order[i] = i
		}
		for i := n - 1; i > 0; i-- {
			j := rng.intn(i + 1)
			order[i], order[j] = order[j], order[i]
		}
		var lists [][]string
		for k := 0; k < n; {
			g := 1 + rng.intn(8)
			var l []string
			for ; g > 0 && k < n; g-- {
				l = append(l, plans[order[k]].id)
				k++
			}
			if k > 2 && rng.intn(3) == 0 {
				l = append(l, plans[order[rng.intn(k)]].id)
			}
			lists = append(lists, l)
		}
		wg.Add(1)
		sem <- struct{}{}
		go func(ri int) {
			defer wg.Done()
			defer func() { <-sem }()
			fp := newVerifFakeProxy()
			fp.lists = lists
			idTok := map[string]string{}
			for _, p := range plans {
				method := "POST"
				if p.reqSize == 0 {
					method = "GET"
				}
				var body []byte
				if p.reqSize > 0 {
					body = verifBody(p.tok, p.reqSize)
				}
				fp.addRequest(p.id, "u@example.com", verifRawRequest(method, p.tok, p.respSize, p.lat, http.Header{"X-Verif-Token": {p.tok}}, body), nil)
				idTok[p.id] = p.tok
			}
			// the first upload of some responses is answered 500 after it was read to the end (a balancer in front of the proxy): the
			// agent may retry (small responses) or give up (larger than its replay buffer), but what is acknowledged is the response
			upFaults := map[string][]int{}
			for i, p := range plans {
				if i%6 == 3 && p.respSize <= 70000 {
					fp.upScript[p.id] = []int{verif500}
					upFaults[p.id] = []int{verif500}
				}
			}
			ctx, cancel := context.WithCancel(context.Background())
			fp.afterList = cancel
			client := &http.Client{Transport: fp}
			done := make(chan struct{})
			go func() { pollForNewRequests(ctx, client, hp, "verif-backend"); close(done) }()
			select {
			case <-done:
			case <-time.After(60 * time.Second):
			}
			fp.quiesce(300*time.Millisecond, 30*time.Second, func() bool {
				fp.mu.Lock()
				defer fp.mu.Unlock()
				// every response whose upload was not made to fail has arrived (the others may have been given up)
				got := map[string]bool{}
				for _, u := range fp.uploads {
					got[u.ID] = true
				}
				for _, p := range plans {
					if upFaults[p.id] == nil && !got[p.id] {
						return false
					}
				}
				return true
			})
			fp.mu.Lock()
			ups := append([]verifUpload(nil), fp.uploads...)
			fp.mu.Unlock()
			var invs []verifInvocation
			toks := map[string]bool{}
			for _, p := range plans {
				toks[p.tok] = true
			}
			for _, v := range be.invocations() {
				if toks[v.Tok] {
					v.Header = map[string][]string{"X-Verif-Token": v.Header["X-Verif-Token"]}
					invs = append(invs, v)
				}
			}
			for i := range ups {
				ups[i].Header = map[string][]string{"X-Verif-Resp": ups[i].Header["X-Verif-Resp"]}
			}
			out.emit(map[string]interface{}{"kind": "round", "index": ri, "requests": n, "lists": lists, "id_tok": idTok, "uploads": ups, "invocations": invs, "upload_faults": upFaults})
		}(ri)
	}
	wg.Wait()
}
