//go:build verif

package main

import (
	"bufio"
	"bytes"
	"crypto/sha256"
	"encoding/hex"
	"encoding/json"
	"errors"
	"fmt"
	"io"
	"net/http"
	"net/http/httptest"
	"strconv"
	"strings"
	"sync"
	"sync/atomic"
	"time"
)

// ---- deterministic bodies carrying a token ----

func verifBody(tok string, n int) []byte {
	var b bytes.Buffer
	b.WriteString(tok + "\n")
	h := sha256.Sum256([]byte(tok))
	for b.Len() < n {
		b.WriteString(hex.EncodeToString(h[:]))
		h = sha256.Sum256(h[:])
	}
	if n < len(tok)+1 {
		n = len(tok) + 1
	}
	return b.Bytes()[:n]
}

func verifBodyToken(b []byte) (string, bool) {
	i := bytes.IndexByte(b, '\n')
	if i < 0 {
		return "", false
	}
	tok := string(b[:i])
	return tok, bytes.Equal(b, verifBody(tok, len(b)))
}

// ---- scripted proxy, as an http.RoundTripper handed to the agent's code ----

const (
	verifOK        = 0
	verifNetErr    = 1
	verif500       = 2
	verif404       = 3
	verifGarbage   = 4 // 200 with a body that is not a request / not JSON
	verifBadHeader = 5 // 200 without a parsable start-time header
)

type verifStoredReq struct {
	raw    []byte
	user   string
	script []int // outcome of successive fetch attempts; beyond the script: OK
	count  int
}

type verifUpload struct {
	ID       string              `json:"id"`
	Status   int                 `json:"status"`
	Header   map[string][]string `json:"header"`
	Trailer  map[string][]string `json:"trailer"`
	BodyLen  int                 `json:"body_len"`
	BodyTok  string              `json:"body_tok"`
	BodyOK   bool                `json:"body_ok"`
	ParseErr string              `json:"parse_err,omitempty"`
	Seq      int64               `json:"seq"`
}

type verifFakeProxy struct {
	mu               sync.Mutex
	seq              int64
	lists            [][]string // scripted pending-list replies
	listKinds        []int      // outcome kind per list call (default OK)
	listDelay        []int      // milliseconds the proxy takes to answer list call i (default 0)
	listCalls        int
	listTimes        []time.Time
	afterList        func()        // called when the script is exhausted
	blockList        chan struct{} // if non-nil, list calls beyond the script block on it
	reqs             map[string]*verifStoredReq
	uploads          []verifUpload
	upScript         map[string][]int // per ID: outcome of successive upload attempts
	upCount          map[string]int
	repeatUserHeader map[string]bool // per ID: the reply to the fetch carries the user-ID field twice (same value)
	lastEvent        time.Time
}

func newVerifFakeProxy() *verifFakeProxy {
	return &verifFakeProxy{reqs: map[string]*verifStoredReq{}, upScript: map[string][]int{}, upCount: map[string]int{}, lastEvent: time.Now()}
}

func verifResp(r *http.Request, code int, hdr http.Header, body []byte) *http.Response {
	if hdr == nil {
		hdr = http.Header{}
	}
	return &http.Response{StatusCode: code, Status: strconv.Itoa(code) + " " + http.StatusText(code), Proto: "HTTP/1.1", ProtoMajor: 1, ProtoMinor: 1,
		Header: hdr, Body: io.NopCloser(bytes.NewReader(body)), ContentLength: int64(len(body)), Request: r}
}

func (p *verifFakeProxy) touch() { p.lastEvent = time.Now() }

func (p *verifFakeProxy) RoundTrip(r *http.Request) (*http.Response, error) {
	path := r.URL.Path
	id := r.Header.Get("X-Inverting-Proxy-Request-ID")
	switch {
	case strings.HasSuffix(path, "agent/pending"):
		p.mu.Lock()
		i := p.listCalls
		p.listCalls++
		p.listTimes = append(p.listTimes, time.Now())
		p.touch()
		var l []string
		kind := verifOK
		exhausted := i >= len(p.lists)
		if !exhausted {
			l = p.lists[i]
			if i < len(p.listKinds) {
				kind = p.listKinds[i]
			}
		}
		after := p.afterList
		block := p.blockList
		delay := 0
		if i < len(p.listDelay) {
			delay = p.listDelay[i]
		}
		p.mu.Unlock()
		if delay > 0 {
			time.Sleep(time.Duration(delay) * time.Millisecond)
		}
		if exhausted {
			if after != nil && i == len(p.lists) {
				after()
			}
			if block != nil {
				select {
				case <-block:
				case <-r.Context().Done():
					return nil, r.Context().Err()
				}
			}
			return verifResp(r, 200, nil, []byte("[]")), nil
		}
		switch kind {
		case verifNetErr:
			return nil, errors.New("verif: scripted list failure")
		case verif500:
			return verifResp(r, 500, nil, []byte("boom")), nil
		case verif404:
			return verifResp(r, 404, nil, []byte("nope")), nil
		case verifGarbage:
			return verifResp(r, 200, nil, []byte("{not json")), nil
		}
		b, _ := json.Marshal(l)
		return verifResp(r, 200, nil, b), nil
	case strings.HasSuffix(path, "agent/request"):
		p.mu.Lock()
		p.touch()
		sr := p.reqs[id]
		kind := verif404
		if sr != nil {
			kind = verifOK
			if sr.count < len(sr.script) {
				kind = sr.script[sr.count]
			}
			sr.count++
		}
		p.mu.Unlock()
		switch kind {
		case verifNetErr:
			return nil, errors.New("verif: scripted fetch failure")
		case verif500:
			return verifResp(r, 503, nil, []byte("unavailable")), nil
		case verif404:
			return verifResp(r, 404, nil, []byte("not found")), nil
		case verifGarbage:
			h := http.Header{}
			h.Set("X-Inverting-Proxy-Request-Start-Time", time.Now().Format(time.RFC3339Nano))
			return verifResp(r, 200, h, []byte("\x00\x01 this is not an HTTP request\r\n\r\n")), nil
		case verifBadHeader:
			return verifResp(r, 200, nil, sr.raw), nil
		}
		h := http.Header{}
		h.Set("X-Inverting-Proxy-Request-Start-Time", time.Now().Format(time.RFC3339Nano))
		if sr.user != "\x00none" {
			h.Set("X-Inverting-Proxy-User-ID", sr.user)
			if p.repeatUserHeader != nil && p.repeatUserHeader[id] {
				// the asserted identity on two field lines (a proxy or a hop in front of it that repeats the field): still one identity
				h.Add("X-Inverting-Proxy-User-ID", sr.user)
			}
		}
		return verifResp(r, 200, h, sr.raw), nil
	case strings.HasSuffix(path, "agent/response"):
		p.mu.Lock()
		p.touch()
		n := p.upCount[id]
		p.upCount[id] = n + 1
		kind := verifOK
		if s := p.upScript[id]; n < len(s) {
			kind = s[n]
		}
		p.mu.Unlock()
		var raw []byte
		if r.Body != nil {
			if kind == verifNetErr {
				// fail before reading anything
				r.Body.Close()
				return nil, errors.New("verif: scripted upload failure")
			}
			// read as net/http's transport does (io.Copy with a 32 KiB buffer): the agent's replay buffer hands out end-of-stream
			// early to a reader whose buffer is smaller than what it has buffered (Props/C06.v C06_small_read_refuted, a latent
			// defect that no reader in the deployed agent can trigger; io.ReadAll starts with 512 bytes and would)
			raw = verifReadLikeTransport(r.Body)
			r.Body.Close()
		}
		if kind == verif500 {
			return verifResp(r, 500, nil, []byte("boom")), nil
		}
		up := verifUpload{ID: id}
		resp, err := http.ReadResponse(bufio.NewReader(bytes.NewReader(raw)), nil)
		if err != nil {
			up.ParseErr = err.Error()
		} else {
			body, rerr := io.ReadAll(resp.Body)
			if rerr != nil {
				up.ParseErr = "body: " + rerr.Error()
			}
			up.Status = resp.StatusCode
			up.Header = resp.Header
			up.Trailer = resp.Trailer
			up.BodyLen = len(body)
			up.BodyTok, up.BodyOK = verifBodyToken(body)
		}
		p.mu.Lock()
		p.seq++
		up.Seq = p.seq
		p.uploads = append(p.uploads, up)
		p.touch()
		p.mu.Unlock()
		return verifResp(r, 200, nil, []byte("ok")), nil
	}
	return verifResp(r, 400, nil, []byte("verif: unexpected path "+path)), nil
}

func (p *verifFakeProxy) addRequest(id, user string, raw []byte, script []int) {
	p.mu.Lock()
	p.reqs[id] = &verifStoredReq{raw: raw, user: user, script: script}
	p.mu.Unlock()
}

// quiesce waits until nothing has happened for `idle` (at most `max`).
func (p *verifFakeProxy) quiesce(idle, max time.Duration, done func() bool) {
	deadline := time.Now().Add(max)
	for time.Now().Before(deadline) {
		p.mu.Lock()
		since := time.Since(p.lastEvent)
		p.mu.Unlock()
		if since > idle && (done == nil || done()) {
			return
		}
		time.Sleep(10 * time.Millisecond)
	}
}

// ---- recording backend ----

type verifInvocation struct {
	Tok     string              `json:"tok"`
	Nonce   int64               `json:"nonce"`
	Method  string              `json:"method"`
	URI     string              `json:"uri"`
	Host    string              `json:"host"`
	Header  map[string][]string `json:"header"`
	BodyOK  bool                `json:"body_ok"`
	BodyTok string              `json:"body_tok"`
	BodyLen int                 `json:"body_len"`
}

type verifBackend struct {
	srv   *httptest.Server
	mu    sync.Mutex
	nonce int64
	invs  []verifInvocation
}

// The backend answers /t/<tok>?s=<size>&d=<delay ms> with a response carrying
// "R|<tok>|<nonce>" in a header, in the body and in a trailer.
func newVerifBackend() *verifBackend {
	b := &verifBackend{}
	b.srv = httptest.NewServer(http.HandlerFunc(func(w http.ResponseWriter, r *http.Request) {
		body, _ := io.ReadAll(r.Body)
		n := atomic.AddInt64(&b.nonce, 1)
		tok := strings.TrimPrefix(r.URL.Path, "/t/")
		bt, ok := verifBodyToken(body)
		b.mu.Lock()
		b.invs = append(b.invs, verifInvocation{Tok: tok, Nonce: n, Method: r.Method, URI: r.RequestURI, Host: r.Host, Header: r.Header, BodyOK: ok || len(body) == 0, BodyTok: bt, BodyLen: len(body)})
		b.mu.Unlock()
		q := r.URL.Query()
		if d, _ := strconv.Atoi(q.Get("d")); d > 0 {
			time.Sleep(time.Duration(d) * time.Millisecond)
		}
		size, _ := strconv.Atoi(q.Get("s"))
		rt := fmt.Sprintf("R|%s|%d", tok, n)
		w.Header().Set("X-Verif-Resp", rt)
		w.Header().Set("Trailer", "X-Verif-Trailer")
		w.WriteHeader(200)
		w.Write(verifBody(rt, size))
		w.Header().Set("X-Verif-Trailer", rt)
	}))
	return b
}

func (b *verifBackend) host() string { return strings.TrimPrefix(b.srv.URL, "http://") }

func (b *verifBackend) invocations() []verifInvocation {
	b.mu.Lock()
	defer b.mu.Unlock()
	return append([]verifInvocation(nil), b.invs...)
}

// serialised client request as the proxy would store it
func verifRawRequest(method, tok string, respSize, delayMs int, hdr http.Header, body []byte) []byte {
	var b bytes.Buffer
	fmt.Fprintf(&b, "%s /t/%s?s=%d&d=%d HTTP/1.1\r\nHost: verif.example\r\n", method, tok, respSize, delayMs)
	for k, vs := range hdr {
		for _, v := range vs {
			fmt.Fprintf(&b, "%s: %s\r\n", k, v)
		}
	}
	if len(body) > 0 || method == "POST" || method == "PUT" {
		fmt.Fprintf(&b, "Content-Length: %d\r\n", len(body))
	}
	b.WriteString("\r\n")
	b.Write(body)
	return b.Bytes()
}

func verifReadLikeTransport(r io.Reader) []byte {
	var out []byte
	buf := make([]byte, 32*1024)
	for {
		n, err := r.Read(buf)
		out = append(out, buf[:n]...)
		if err != nil {
			return out
		}
	}
}
