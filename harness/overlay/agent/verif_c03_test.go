//go:build verif

package main

import (
	"bufio"
	"bytes"
	"context"
	"fmt"
	"io"
	"net"
	"net/http"
	"strings"
	"sync"
	"testing"
	"time"

	"golang.org/x/net/http2"
	"golang.org/x/net/http2/h2c"
)

type verifC03Resp struct {
	Case       string      `json:"case"`
	Method     string      `json:"method"`
	Proto      string      `json:"proto"` // h1 | h2c
	Interim    []int       `json:"interim"`
	Status     int         `json:"status"`
	Fields     [][2]string `json:"fields"`
	BodyLen    int         `json:"body_len"`
	Framing    string      `json:"framing"` // length | chunked | close
	Chunks     []int       `json:"chunks"`
	Declared   [][2]string `json:"declared_trailers"`
	Undeclared [][2]string `json:"undeclared_trailers"`
	SlowMs     int         `json:"slow_ms,omitempty"` // the backend pauses this long in the middle of the response
}

func (c *verifC03Resp) hasBody() bool {
	return c.Method != "HEAD" && c.Status != 204 && c.Status != 304
}

// raw HTTP/1.1 backend: the exact wire response is scripted per case
func verifStartRawBackend(cases map[string]*verifC03Resp) (addr string, stop func()) {
	ln, err := net.Listen("tcp", "127.0.0.1:0")
	if err != nil {
		panic(err)
	}
	go func() {
		for {
			c, err := ln.Accept()
			if err != nil {
				return
			}
			go func(c net.Conn) {
				defer c.Close()
				br := bufio.NewReader(c)
				for {
					req, err := http.ReadRequest(br)
					if err != nil {
						return
					}
					io.Copy(io.Discard, req.Body)
					sc := cases[strings.TrimPrefix(req.URL.Path, "/c03/")]
					if sc == nil {
						fmt.Fprintf(c, "HTTP/1.1 404 Not Found\r\nContent-Length: 0\r\n\r\n")
						continue
					}
					var w bytes.Buffer
					for _, code := range sc.Interim {
						fmt.Fprintf(&w, "HTTP/1.1 %d %s\r\nX-Interim: %d\r\n\r\n", code, http.StatusText(code), code)
					}
					fmt.Fprintf(&w, "HTTP/1.1 %d %s\r\n", sc.Status, http.StatusText(sc.Status))
					for _, f := range sc.Fields {
						fmt.Fprintf(&w, "%s: %s\r\n", f[0], f[1])
					}
					body := verifFiller(sc.Case, sc.BodyLen)
					closeAfter := false
					if !sc.hasBody() {
						if sc.Framing == "length" && sc.Status != 204 {
							fmt.Fprintf(&w, "Content-Length: %d\r\n", sc.BodyLen)
						}
						w.WriteString("\r\n")
					} else {
						switch sc.Framing {
						case "length":
							fmt.Fprintf(&w, "Content-Length: %d\r\n\r\n", len(body))
							w.Write(body)
						case "close":
							w.WriteString("Connection: close\r\n\r\n")
							w.Write(body)
							closeAfter = true
						default:
							if len(sc.Declared) > 0 {
								var names []string
								for _, t := range sc.Declared {
									dup := false
									for _, n := range names {
										if n == t[0] {
											dup = true
										}
									}
									if !dup {
										names = append(names, t[0])
									}
								}
								fmt.Fprintf(&w, "Trailer: %s\r\n", strings.Join(names, ", "))
							}
							w.WriteString("Transfer-Encoding: chunked\r\n\r\n")
							off := 0
							for _, l := range sc.Chunks {
								if off >= len(body) {
									break
								}
								if off+l > len(body) {
									l = len(body) - off
								}
								fmt.Fprintf(&w, "%x\r\n", l)
								w.Write(body[off : off+l])
								w.WriteString("\r\n")
								off += l
							}
							if off < len(body) {
								fmt.Fprintf(&w, "%x\r\n", len(body)-off)
								w.Write(body[off:])
								w.WriteString("\r\n")
							}
							w.WriteString("0\r\n")
							for _, t := range sc.Declared {
								fmt.Fprintf(&w, "%s: %s\r\n", t[0], t[1])
							}
							for _, t := range sc.Undeclared {
								fmt.Fprintf(&w, "%s: %s\r\n", t[0], t[1])
							}
							w.WriteString("\r\n")
						}
					}
					if sc.SlowMs > 0 {
						b := w.Bytes()
						c.Write(b[:len(b)/2])
						time.Sleep(time.Duration(sc.SlowMs) * time.Millisecond)
						c.Write(b[len(b)/2:])
					} else {
						c.Write(w.Bytes())
					}
					if closeAfter {
						return
					}
				}
			}(c)
		}
	}()
	return ln.Addr().String(), func() { ln.Close() }
}

// h2c backend producing the same responses through net/http's handler API
func verifStartH2CBackend(cases map[string]*verifC03Resp) (addr string, stop func()) {
	h := http.HandlerFunc(func(w http.ResponseWriter, r *http.Request) {
		io.Copy(io.Discard, r.Body)
		sc := cases[strings.TrimPrefix(r.URL.Path, "/c03/")]
		if sc == nil {
			w.WriteHeader(404)
			return
		}
		for _, code := range sc.Interim {
			w.Header().Set("X-Interim", fmt.Sprint(code))
			w.WriteHeader(code)
			w.Header().Del("X-Interim")
		}
		for _, f := range sc.Fields {
			w.Header().Add(f[0], f[1])
		}
		if len(sc.Declared) > 0 && sc.hasBody() {
			seen := map[string]bool{}
			for _, t := range sc.Declared {
				if !seen[t[0]] {
					w.Header().Add("Trailer", t[0])
					seen[t[0]] = true
				}
			}
		}
		body := verifFiller(sc.Case, sc.BodyLen)
		if sc.Framing == "length" && sc.hasBody() {
			w.Header().Set("Content-Length", fmt.Sprint(len(body)))
		}
		w.WriteHeader(sc.Status)
		if sc.hasBody() {
			off := 0
			for _, l := range sc.Chunks {
				if off >= len(body) {
					break
				}
				if off+l > len(body) {
					l = len(body) - off
				}
				w.Write(body[off : off+l])
				if f, ok := w.(http.Flusher); ok {
					f.Flush()
				}
				off += l
			}
			if off < len(body) {
				w.Write(body[off:])
			}
			{
				// (HTTP/2 allows trailers next to a Content-Length)
				for _, t := range sc.Declared {
					w.Header().Add(t[0], t[1])
				}
				for _, t := range sc.Undeclared {
					w.Header().Add(http.TrailerPrefix+t[0], t[1])
				}
			}
		}
	})
	ln, err := net.Listen("tcp", "127.0.0.1:0")
	if err != nil {
		panic(err)
	}
	srv := &http.Server{Handler: h2c.NewHandler(h, &http2.Server{})}
	go srv.Serve(ln)
	return ln.Addr().String(), func() { srv.Close() }
}

func TestVerifC03(t *testing.T) {
	defer func() { *shimPath, *shimWebsockets, *forceHTTP2 = "", false, false }()
	out := verifOpenOut(t)
	defer out.close()
	rng := &verifRng{s: verifSeed()}
	*forwardUserID, *stripCredentials = false, false
	sessionLRU = nil
	statuses := []int{200, 200, 200, 201, 202, 204, 206, 301, 302, 304, 400, 401, 403, 404, 418, 429, 500, 502, 503, 599}
	sizes := []int{0, 1, 2, 1023, 1024, 1025, 4095, 4096, 4097, 32767, 32768, 32769, 65536, 65537}
	big := []int{999999, 1000001, 3000000}
	e2e := [][2]string{{"Content-Type", "text/plain"}, {"Set-Cookie", "a=1; Path=/"}, {"Set-Cookie", "b=2; HttpOnly"}, {"Set-Cookie", "c=3"}, {"Warning", "199 - \"one\""}, {"Warning", "299 - \"two\""},
		{"X-Custom", "v1"}, {"X-Custom", ""}, {"x-lower-case", "lc"}, {"Cache-Control", "no-store"}, {"ETag", "\"abc\""}, {"Location", "/elsewhere?x=1"}, {"Vary", "Accept"}, {"Vary", "Cookie"},
		{"X-Long", strings.Repeat("y", 6000)}, {"Content-Language", "en"}, {"Link", "</a>; rel=preload"},
		// end-to-end fields whose names resemble hop-by-hop ones
		{"Proxy-Status", "verif; error=none"}, {"Proxy-Authentication-Info", "nextnonce=x"}, {"Proxy-Cache-Hit", "1"}, {"Connection-Info", "c"}, {"Keep-Alive-Hint", "k"},
		{"Te-Deum", "t"}, {"Trailers", "not-trailer"}, {"Upgrade-Insecure-Requests", "1"}, {"X-Transfer-Encoding", "x"}}
	hop := [][2]string{{"Keep-Alive", "timeout=5"}, {"Proxy-Authenticate", "Basic realm=x"}, {"Upgrade", "h2c"}, {"Proxy-Connection", "keep-alive"}, {"Connection", "X-Custom-Hop"}}
	trailerNames := []string{"X-Trailer-A", "X-Trailer-B", "X-Checksum", "Server-Timing", "X-Trailer-E", "Proxy-Status", "Upgrade-Hint"}
	n := 110
	if verifThorough() {
		n = 3000
	}
	gen := func(proto string, i int) *verifC03Resp {
		c := &verifC03Resp{Case: fmt.Sprintf("c03-%s-%d", proto, i), Proto: proto, Method: []string{"GET", "GET", "GET", "POST", "HEAD"}[rng.intn(5)], Status: statuses[rng.intn(len(statuses))]}
		for k := rng.intn(8); k > 0; k-- {
			c.Fields = append(c.Fields, e2e[rng.intn(len(e2e))])
		}
		if rng.intn(4) == 0 && proto == "h1" {
			c.Fields = append(c.Fields, hop[rng.intn(len(hop))])
		}
		c.BodyLen = sizes[rng.intn(len(sizes))]
		if rng.intn(15) == 0 {
			c.BodyLen = big[rng.intn(len(big))]
		}
		c.Framing = []string{"length", "chunked", "chunked", "close"}[rng.intn(4)]
		if proto == "h2c" && c.Framing == "close" {
			c.Framing = "chunked"
		}
		switch rng.intn(4) {
		case 0:
			c.Chunks = []int{1}
		case 1:
			for k := 1 + rng.intn(20); k > 0; k-- {
				c.Chunks = append(c.Chunks, 1+rng.intn(5000))
			}
		case 2:
			for k := 0; k < 200; k++ {
				c.Chunks = append(c.Chunks, 1+rng.intn(64))
			}
		default:
			c.Chunks = []int{c.BodyLen}
		}
		if c.Framing == "chunked" || (proto == "h2c" && c.Framing == "length" && i%2 == 0) {
			nd := []int{0, 0, 1, 1, 2, 3, 5}[rng.intn(7)]
			for k := 0; k < nd; k++ {
				c.Declared = append(c.Declared, [2]string{trailerNames[k], fmt.Sprintf("d%d-%d", i, k)})
			}
			if nd > 0 && rng.intn(4) == 0 {
				c.Declared = append(c.Declared, [2]string{trailerNames[0], "second-value"})
			}
			nu := []int{0, 0, 0, 1, 2, 5}[rng.intn(6)]
			for k := 0; k < nu; k++ {
				// names of every shape (the serialiser and the proxy must not care what a trailer is called: also names that begin
				// with the letters of "Trailer:", the prefix under which ReverseProxy hands undeclared trailers over)
				c.Undeclared = append(c.Undeclared, [2]string{[]string{"X-Undeclared-0", "Trace-Id", "Total-Count", "T1", "Retry-Hint", "Etag-Of-Body"}[(k+i)%6] + []string{"", "-B"}[k/6%2], fmt.Sprintf("u%d-%d", i, k)})
			}
		}
		switch rng.intn(12) {
		case 0:
			c.Interim = []int{103}
		case 1:
			c.Interim = []int{102}
		case 2:
			c.Interim = []int{103, 103}
		case 3:
			if proto == "h1" {
				c.Interim = []int{100}
			}
		}
		return c
	}
	for _, proto := range []string{"h1", "h2c"} {
		cases := map[string]*verifC03Resp{}
		var order []*verifC03Resp
		cnt := n
		if proto == "h2c" {
			cnt = n / 2
		}
		for i := 0; i < cnt; i++ {
			c := gen(proto, i)
			if proto == "h1" && i < 3 {
				// corpus: a 1-byte body followed at once by trailers (the serialiser is still
				// writing the header when the trailer map is filled in)
				c.Method, c.Status, c.Interim, c.BodyLen, c.Framing, c.Chunks = "GET", 200, nil, 1, "chunked", []int{1}
				c.Declared = [][2]string{{"X-Trailer-A", "corpus-a"}, {"X-Trailer-B", "corpus-b"}}
				c.Undeclared = nil
			}
			if i == 4 {
				// a trailer section larger than any plausible read buffer on the way (one long value and many fields)
				c.Method, c.Status, c.Interim, c.BodyLen, c.Framing, c.Chunks = "GET", 200, nil, 100, "chunked", []int{100}
				c.Declared = [][2]string{{"X-Checksum", strings.Repeat("c", 1500)}}
				c.Undeclared = nil
				for k := 0; k < 24; k++ {
					c.Undeclared = append(c.Undeclared, [2]string{fmt.Sprintf("X-Undeclared-%d", k), strings.Repeat("u", 60)})
				}
			}
			if i == 5 {
				// a response larger than any plausible size limit on the way (12 MiB and a bit), with trailers after it
				c.Method, c.Status, c.Interim, c.BodyLen, c.Framing, c.Chunks = "GET", 200, nil, 12<<20+5, "chunked", []int{1 << 20}
				c.Declared = [][2]string{{"X-Checksum", "after-twelve-mebibytes"}}
				c.Undeclared = nil
				if proto == "h2c" {
					c.Framing, c.BodyLen = "length", 11<<20+3
				}
			}
			if proto == "h1" && i == 3 {
				// a response that takes longer than any plausible I/O deadline on the way: 11 s pause in mid-body, trailers after it
				c.Method, c.Status, c.Interim, c.BodyLen, c.Framing, c.Chunks = "GET", 200, nil, 3000, "chunked", []int{1000, 1000, 1000}
				c.Declared = [][2]string{{"X-Trailer-A", "after-the-pause"}}
				c.Undeclared = nil
				c.SlowMs = 11000
			}
			cases[c.Case] = c
			order = append(order, c)
		}
		var addr string
		var stopBE func()
		if proto == "h1" {
			addr, stopBE = verifStartRawBackend(cases)
		} else {
			addr, stopBE = verifStartH2CBackend(cases)
		}
		*host = addr
		*forceHTTP2 = proto == "h2c" // the flag, as main() has it
		hp, err := hostProxy(context.Background(), addr, "", false, proto == "h2c")
		if err != nil {
			t.Fatal(err)
		}
		px, err := startVerifProxy()
		if err != nil {
			t.Fatal(err)
		}
		stopAgent := startVerifAgent(px.addr, hp)
		results := make([]verifRawResp, len(order))
		var wg sync.WaitGroup
		sem := make(chan struct{}, 10)
		for i, c := range order {
			wg.Add(1)
			sem <- struct{}{}
			go func(i int, c *verifC03Resp) {
				defer wg.Done()
				defer func() { <-sem }()
				raw := fmt.Sprintf("%s /c03/%s HTTP/1.1\r\nHost: verif.example\r\nTE: trailers\r\n", c.Method, c.Case)
				if c.Method == "POST" {
					raw += "Content-Length: 3\r\n\r\nabc"
				} else {
					raw += "\r\n"
				}
				results[i] = verifRawRoundTrip(px.addr, []byte(raw), c.Method, 60*time.Second)
			}(i, c)
		}
		wg.Wait()
		for i, c := range order {
			out.emit(map[string]interface{}{"kind": "c03", "backend": c, "body_hash": verifHash(verifFiller(c.Case, c.BodyLen)), "client": results[i]})
		}
		if r := px.raceReports(); r != "" {
			out.emit(map[string]interface{}{"kind": "race", "where": "proxy", "report": r})
		}
		stopAgent()
		px.stop()
		stopBE()
		time.Sleep(50 * time.Millisecond)
	}
}
