//go:build verif

package main

import (
	"bytes"
	"context"
	"fmt"
	"io"
	"net/http"
	"net/http/httptest"
	"os"
	"strings"
	"sync"
	"testing"
	"time"
)

type verifC02Req struct {
	Case    string      `json:"case"`
	Method  string      `json:"method"`
	Target  string      `json:"target"`
	Host    string      `json:"host"`
	Fields  [][2]string `json:"fields"`
	BodyLen int         `json:"body_len"`
	Chunked bool        `json:"chunked"`
	Expect  bool        `json:"expect_continue"`
	SlowMs  int         `json:"slow_ms,omitempty"` // the client pauses this long in the middle of sending
}

type verifC02Seen struct {
	Method   string              `json:"method"`
	URI      string              `json:"uri"`
	Host     string              `json:"host"`
	Header   map[string][]string `json:"header"`
	BodyLen  int                 `json:"body_len"`
	BodyHash string              `json:"body_hash"`
	TE       []string            `json:"transfer_encoding"`
	CL       int64               `json:"content_length"`
}

// TestVerifC02: raw client bytes -> real proxy binary -> real agent code ->
// recording backend; the backend's view of every request is recorded next to
// what the client sent.
func TestVerifC02(t *testing.T) {
	out := verifOpenOut(t)
	defer out.close()
	rng := &verifRng{s: verifSeed()}
	var mu sync.Mutex
	seen := map[string]*verifC02Seen{}
	be := httptest.NewServer(http.HandlerFunc(func(w http.ResponseWriter, r *http.Request) {
		body, _ := io.ReadAll(r.Body)
		mu.Lock()
		seen[r.Header.Get("X-Verif-Case")] = &verifC02Seen{Method: r.Method, URI: r.RequestURI, Host: r.Host, Header: r.Header.Clone(), BodyLen: len(body), BodyHash: verifHash(body), TE: r.TransferEncoding, CL: r.ContentLength}
		mu.Unlock()
		w.Write([]byte("ok"))
	}))
	defer be.Close()
	*host = strings.TrimPrefix(be.URL, "http://")
	*forwardUserID, *stripCredentials = false, false
	identityFlags := os.Getenv("VERIF_C02_IDENTITY") == "1"
	if identityFlags {
		// the same requests with --forward-user-id and --strip-credentials on: the two fields those flags are about aside, the
		// request is forwarded as it came
		*forwardUserID, *stripCredentials = true, true
		defer func() { *forwardUserID, *stripCredentials = false, false }()
	}
	sessionLRU = nil
	hp, err := hostProxy(context.Background(), *host, "", false, false)
	if err != nil {
		t.Fatal(err)
	}
	px, err := startVerifProxy()
	if err != nil {
		t.Fatal(err)
	}
	defer px.stop()
	stopAgent := startVerifAgent(px.addr, hp)
	defer stopAgent()

	methods := []string{"GET", "POST", "PUT", "DELETE", "PATCH", "OPTIONS", "FOO", "PROPFIND", "HEAD"}
	paths := []string{"/", "/a", "/a/b/c", "/a%2Fb/c%20d", "/%25", "//double/./x/../y", "/caf%C3%A9", "/a;b", "/*", "/trailing/", "/UPPER/lower", "/a+b", "/~user", "/a%2fb"}
	queries := []string{"", "?", "?x=1", "?x=1&y=%26&z", "?a=b&a=c", "?q=%E2%9C%93", "?empty=", "?k", "?x=a+b", "?x=%20%2B"}
	e2eNames := []string{"Accept", "X-Multi", "X-Custom-Header", "Cookie", "Accept-Language", "x-lower", "X-MIXED-case", "Cache-Control", "If-None-Match", "Range", "Accept-Encoding", "User-Agent", "X-Forwarded-For", "Via", "Referer", "Origin",
		"Proxy-Status", "Proxy-Custom", "Connection-Info", "Keep-Alive-Hint", "Te-Deum", "Trailers", "Upgrade-Insecure-Requests", "X-Forwarded-Host", "X-Forwarded-Proto", "Forwarded"}
	hopNames := []string{"Connection", "Keep-Alive", "Proxy-Authenticate", "Proxy-Authorization", "TE", "Trailer", "Upgrade", "Proxy-Connection"}
	anyVal := []string{"v1", "", "a, b;q=0.5", "x=1; y=2", strings.Repeat("z", 100), "v2"}
	valuePools := map[string][]string{
		"Accept": {"*/*", "text/html, application/json;q=0.9", "image/*"}, "X-Multi": anyVal, "X-Custom-Header": anyVal, "x-lower": anyVal, "X-MIXED-case": anyVal,
		"Cookie": {"a=1; b=2", "sid=xyz"}, "Accept-Language": {"en", "de-CH, fr;q=0.5"}, "Cache-Control": {"no-cache", "max-age=0"}, "If-None-Match": {"\"abc\"", "W/\"x\""},
		"Range": {"bytes=0-10"}, "Accept-Encoding": {"gzip", "identity", "gzip, deflate", "br"}, "User-Agent": {"Mozilla/5.0 (X11)", "curl/8.0"},
		"Proxy-Status": anyVal, "Proxy-Custom": anyVal, "Connection-Info": anyVal, "Keep-Alive-Hint": anyVal, "Te-Deum": anyVal, "Trailers": anyVal, "Upgrade-Insecure-Requests": {"1"},
		"X-Forwarded-Host": {"front.example"}, "X-Forwarded-Proto": {"https"}, "Forwarded": {"for=10.0.0.1;proto=https"},
		"X-Forwarded-For": {"10.0.0.1", "10.0.0.1, 10.0.0.2"}, "Via": {"1.1 edge"}, "Referer": {"http://verif.example/from"}, "Origin": {"http://verif.example"},
	}
	singleton := map[string]bool{"User-Agent": true, "Referer": true, "Origin": true, "Range": true, "Cookie": true, "If-None-Match": true}
	casings := func(s string, k int) string {
		switch k % 3 {
		case 1:
			return strings.ToLower(s)
		case 2:
			return strings.ToUpper(s)
		}
		return s
	}
	sizes := []int{0, 1, 2, 1023, 1024, 1025, 4095, 4096, 4097, 32767, 32768, 32769, 65535, 65536, 65537}
	big := []int{999999, 1000000, 1000001, 2000000, 5000000}
	n := 160
	if verifThorough() {
		n = 6000
	}
	var reqs []verifC02Req
	raws := map[string][]byte{}
	for i := 0; i < n; i++ {
		c := verifC02Req{Case: fmt.Sprintf("c02-%d", i), Method: methods[rng.intn(len(methods))], Host: []string{"verif.example", "verif.example:8080", "Example.COM", "[::1]:9"}[rng.intn(4)]}
		c.Target = paths[rng.intn(len(paths))] + queries[rng.intn(len(queries))]
		c.Fields = append(c.Fields, [2]string{"X-Verif-Case", c.Case})
		nh := 1 + rng.intn(12)
		if i%20 == 0 {
			nh = 40
		}
		used := map[string]bool{}
		for k := 0; k < nh; k++ {
			name := e2eNames[rng.intn(len(e2eNames))]
			pool, single := valuePools[name], singleton[name]
			if single && used[name] {
				continue
			}
			used[name] = true
			val := pool[rng.intn(len(pool))]
			if i%25 == 0 && k == 0 && !single {
				val = strings.Repeat("L", 8000)
			}
			c.Fields = append(c.Fields, [2]string{casings(name, rng.intn(3)), val})
		}
		if i == 7 {
			// corpus case for the recorded finding: an empty Accept-Encoding value
			c.Fields = [][2]string{{"X-Verif-Case", c.Case}, {"Accept-Encoding", ""}, {"X-Multi", "kept"}}
			c.Method = "GET"
		}
		if rng.intn(3) == 0 {
			hn := hopNames[rng.intn(len(hopNames))]
			val := map[string]string{"Connection": "keep-alive", "Keep-Alive": "timeout=5", "Proxy-Authenticate": "Basic", "Proxy-Authorization": "Basic Zm9v", "TE": "trailers", "Trailer": "X-T", "Upgrade": "h2c", "Proxy-Connection": "keep-alive"}[hn]
			c.Fields = append(c.Fields, [2]string{casings(hn, rng.intn(3)), val})
		}
		hasBody := c.Method != "GET" && c.Method != "HEAD" && c.Method != "DELETE" && c.Method != "OPTIONS" || rng.intn(6) == 0
		if hasBody {
			c.BodyLen = sizes[rng.intn(len(sizes))]
			if rng.intn(12) == 0 {
				c.BodyLen = big[rng.intn(len(big))]
			}
			c.Chunked = rng.intn(3) == 0
			c.Expect = rng.intn(10) == 0 && c.BodyLen > 0
		}
		if i == 2 {
			// an upload that takes longer than any plausible read deadline on the way: 64 KiB with an 11 s pause in the middle
			c.Method, hasBody, c.BodyLen, c.Chunked, c.Expect, c.SlowMs = "POST", true, 65536, false, false, 11000
		}
		if hasBody && i%4 == 1 {
			// body types that net/http's form parsing would consume if anybody on the way asked for a form value
			c.Fields = append(c.Fields, [2]string{"Content-Type", []string{"application/x-www-form-urlencoded", "multipart/form-data; boundary=verifboundary", "application/x-www-form-urlencoded; charset=UTF-8", "application/json"}[(i/4)%4]})
		}
		var raw bytes.Buffer
		fmt.Fprintf(&raw, "%s %s HTTP/1.1\r\nHost: %s\r\n", c.Method, c.Target, c.Host)
		for _, f := range c.Fields {
			fmt.Fprintf(&raw, "%s: %s\r\n", f[0], f[1])
		}
		body := verifFiller(c.Case, c.BodyLen)
		if c.Expect {
			raw.WriteString("Expect: 100-continue\r\n")
		}
		if hasBody {
			if c.Chunked {
				raw.WriteString("Transfer-Encoding: chunked\r\n\r\n")
				for off := 0; off < len(body); {
					l := 1 + rng.intn(9000)
					if off+l > len(body) {
						l = len(body) - off
					}
					fmt.Fprintf(&raw, "%x\r\n", l)
					raw.Write(body[off : off+l])
					raw.WriteString("\r\n")
					off += l
				}
				raw.WriteString("0\r\n\r\n")
			} else {
				fmt.Fprintf(&raw, "Content-Length: %d\r\n\r\n", len(body))
				raw.Write(body)
			}
		} else {
			raw.WriteString("\r\n")
		}
		raws[c.Case] = raw.Bytes()
		reqs = append(reqs, c)
	}
	var wg sync.WaitGroup
	sem := make(chan struct{}, 12)
	results := make([]verifRawResp, len(reqs))
	for i, c := range reqs {
		wg.Add(1)
		sem <- struct{}{}
		go func(i int, c verifC02Req) {
			defer wg.Done()
			defer func() { <-sem }()
			results[i] = verifRawRoundTripPaused(px.addr, raws[c.Case], c.Method, 60*time.Second, time.Duration(c.SlowMs)*time.Millisecond)
		}(i, c)
	}
	wg.Wait()
	mu.Lock()
	defer mu.Unlock()
	for i, c := range reqs {
		out.emit(map[string]interface{}{"kind": "c02", "identity_flags": identityFlags, "req": c, "body_hash": verifHash(verifFiller(c.Case, c.BodyLen)), "seen": seen[c.Case], "client_status": results[i].Status, "client_err": results[i].Err})
	}
	if r := px.raceReports(); r != "" {
		out.emit(map[string]interface{}{"kind": "race", "where": "proxy", "report": r})
	}
}
