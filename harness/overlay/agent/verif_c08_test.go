//go:build verif

package main

import (
	"context"
	"errors"
	"io"
	"net/http"
	"strings"
	"sync"
	"testing"
	"time"
)

// verifListScript is a RoundTripper playing the proxy for the pending-list
// endpoint only: call i succeeds or fails according to the pattern; the
// start and end time of every call are recorded.
type verifListScript struct {
	mu      sync.Mutex
	pattern []int // 0 success, 1 transport error, 2 status 500, 3 malformed JSON, 4 status 404, 5/6/7 status 500/503/401 with an empty body, 8 success with an empty body, 9/10 status 200 whose body breaks off after 0 / 3 bytes, 11-15 status 204 / 202 [] / 304 / 302 / 201 [] (anything but 200 is a failed poll), 16-18 status 503 / 429 / 503 with a Retry-After field, 19/20 status 502 / transport error after the call has taken 30 ms
	starts  []time.Time
	ends    []time.Time
	cancel  context.CancelFunc
}

func (s *verifListScript) RoundTrip(r *http.Request) (*http.Response, error) {
	s.mu.Lock()
	i := len(s.starts)
	s.starts = append(s.starts, time.Now())
	s.mu.Unlock()
	defer func() {
		s.mu.Lock()
		s.ends = append(s.ends, time.Now())
		s.mu.Unlock()
	}()
	kind := 0
	if i < len(s.pattern) {
		kind = s.pattern[i]
	}
	if i >= len(s.pattern)-1 {
		// last scripted call: stop the loop after it returns
		s.cancel()
	}
	mk := func(code int, body string) *http.Response {
		return &http.Response{StatusCode: code, Status: http.StatusText(code), Proto: "HTTP/1.1", ProtoMajor: 1, ProtoMinor: 1,
			Header: http.Header{}, Body: io.NopCloser(strings.NewReader(body)), Request: r}
	}
	switch kind {
	case 1:
		return nil, errors.New("verif: scripted transport failure")
	case 2:
		return mk(500, "boom"), nil
	case 3:
		return mk(200, "{not json"), nil
	case 4:
		return mk(404, "nope"), nil
	case 5:
		return mk(500, ""), nil
	case 6:
		return mk(503, ""), nil
	case 7:
		return mk(401, ""), nil
	case 8:
		return mk(200, ""), nil
	case 9:
		// 200, then the connection dies before any body byte (what net/http reports for a truncated body)
		resp := mk(200, "")
		resp.Body = io.NopCloser(&verifCutBody{err: io.ErrUnexpectedEOF})
		resp.ContentLength = 12
		return resp, nil
	case 10:
		// 200, a few body bytes, then the same
		resp := mk(200, "")
		resp.Body = io.NopCloser(&verifCutBody{data: []byte(`["a`), err: io.ErrUnexpectedEOF})
		resp.ContentLength = 12
		return resp, nil
	case 11:
		return mk(204, ""), nil
	case 12:
		return mk(202, "[]"), nil
	case 13:
		return mk(304, ""), nil
	case 14:
		return mk(302, ""), nil // (no Location: the client hands the response over as it is)
	case 15:
		return mk(201, "[]"), nil
	case 16:
		// failing answers that carry advice about when to come back: the schedule is the agent's own
		r := mk(503, "busy")
		r.Header.Set("Retry-After", "2")
		return r, nil
	case 17:
		r := mk(429, "slow down")
		r.Header.Set("Retry-After", "1")
		return r, nil
	case 18:
		r := mk(503, "")
		r.Header.Set("Retry-After", "Wed, 21 Oct 2037 07:28:00 GMT")
		return r, nil
	case 19:
		// a list call that is slow to fail (an overloaded proxy answering after a while): the wait
		// starts when the call has failed, the time the call took is no part of it
		time.Sleep(30 * time.Millisecond)
		return mk(502, "upstream timed out"), nil
	case 20:
		time.Sleep(30 * time.Millisecond)
		return nil, errors.New("verif: scripted transport failure after 30 ms")
	}
	return mk(200, "[]"), nil
}

type verifCutBody struct {
	data []byte
	err  error
}

func (b *verifCutBody) Read(p []byte) (int, error) {
	if len(b.data) > 0 {
		n := copy(p, b.data)
		b.data = b.data[n:]
		return n, nil
	}
	return 0, b.err
}

// TestVerifC08Loop drives the real pollForNewRequests with scripted list-call
// outcomes and records the gap between the end of each call and the start of
// the next one (the sleep the loop performed).
func TestVerifC08Loop(t *testing.T) {
	out := verifOpenOut(t)
	defer out.close()
	*proxy = "http://verif-proxy.invalid/"
	rng := &verifRng{s: verifSeed()}
	var patterns [][]int
	fails := func(n, kind int) []int {
		p := make([]int, n)
		for i := range p {
			p[i] = kind
		}
		return p
	}
	patterns = append(patterns, append(fails(14, 1), 0, 1, 1, 0, 2))
	patterns = append(patterns, []int{1, 2, 0, 3, 4, 1, 0, 0, 1, 0})
	patterns = append(patterns, []int{0, 1, 1, 1, 0, 1, 1, 1, 1, 1, 1, 0})
	patterns = append(patterns, []int{5, 5, 5, 6, 7, 5, 8, 6, 6, 0})
	patterns = append(patterns, []int{2, 8, 1, 1, 8, 8, 7, 7, 7, 7})
	patterns = append(patterns, []int{9, 9, 9, 9, 10, 10, 9, 0, 10, 9, 9, 0})
	patterns = append(patterns, []int{11, 11, 11, 12, 13, 14, 15, 0, 11, 12, 2, 13, 0})
	patterns = append(patterns, []int{16, 17, 18, 16, 0, 17, 16, 2, 0})
	patterns = append(patterns, []int{19, 19, 19, 20, 20, 19, 19, 20, 0, 19, 20, 0})
	nrand := 10
	if verifThorough() {
		nrand = 60
		patterns = append(patterns, append(fails(16, 2), 0, 1, 1, 0))
		// an outage of more consecutive failures than any small modulus, word size or table a counter might wrap at (about 3 minutes)
		patterns = append(patterns, append(fails(70, 2), 0, 1))
	}
	for i := 0; i < nrand; i++ {
		l := 2 + rng.intn(11)
		p := make([]int, l)
		for j := range p {
			if rng.intn(4) == 0 {
				p[j] = []int{0, 0, 8}[rng.intn(3)]
			} else {
				p[j] = []int{1, 2, 3, 4, 5, 6, 7, 9, 10}[rng.intn(9)]
			}
		}
		patterns = append(patterns, p)
	}
	var wg sync.WaitGroup
	sem := make(chan struct{}, 24)
	for pi, p := range patterns {
		wg.Add(1)
		sem <- struct{}{}
		go func(pi int, p []int) {
			defer wg.Done()
			defer func() { <-sem }()
			// every pattern is run `reps` times concurrently; the element-wise minimum of
			// the gaps is reported (scheduling noise only ever lengthens a gap)
			const reps = 3
			var rmu sync.Mutex
			var minGaps []int64
			calls := 0
			var rwg sync.WaitGroup
			failed := false
			for rep := 0; rep < reps; rep++ {
				rwg.Add(1)
				go func() {
					defer rwg.Done()
					gaps, n, ok := verifRunLoopPattern(p)
					rmu.Lock()
					defer rmu.Unlock()
					if !ok {
						failed = true
						return
					}
					calls += n
					if minGaps == nil {
						minGaps = gaps
						return
					}
					for i := range gaps {
						if i < len(minGaps) && gaps[i] < minGaps[i] {
							minGaps[i] = gaps[i]
						}
					}
				}()
			}
			rwg.Wait()
			if failed {
				out.emit(map[string]interface{}{"kind": "loop", "pattern": p, "error": "poll loop did not stop"})
				return
			}
			out.emit(map[string]interface{}{"kind": "loop", "pattern": p, "calls": calls, "reps": reps, "gaps": minGaps})
		}(pi, p)
	}
	wg.Wait()
	// the same loop under other values of -proxy-timeout (0 = no timeout for http.Client, and one far below the back-off cap):
	// the flag bounds a call to the proxy, it has no say in the wait between calls
	saved := *proxyTimeout
	for _, pt := range []time.Duration{0, 50 * time.Millisecond} {
		*proxyTimeout = pt
		p := append(fails(11, 2), 0, 1, 1)
		gaps, n, ok := verifRunLoopPattern(p)
		if !ok {
			out.emit(map[string]interface{}{"kind": "loop", "pattern": p, "error": "poll loop did not stop", "proxy_timeout_ms": pt.Milliseconds()})
			continue
		}
		out.emit(map[string]interface{}{"kind": "loop", "pattern": p, "calls": n, "reps": 1, "gaps": gaps, "proxy_timeout_ms": pt.Milliseconds()})
	}
	*proxyTimeout = saved
}

func verifRunLoopPattern(p []int) ([]int64, int, bool) {
	{
		{
			ctx, cancel := context.WithCancel(context.Background())
			s := &verifListScript{pattern: p, cancel: cancel}
			client := &http.Client{Transport: s}
			done := make(chan struct{})
			go func() {
				pollForNewRequests(ctx, client, http.NotFoundHandler(), "verif-backend")
				close(done)
			}()
			select {
			case <-done:
			case <-time.After(90*time.Second + time.Duration(len(p))*3500*time.Millisecond):
				return nil, 0, false
			}
			s.mu.Lock()
			defer s.mu.Unlock()
			var gaps []int64
			for i := 0; i+1 < len(s.starts) && i < len(s.ends); i++ {
				gaps = append(gaps, int64(s.starts[i+1].Sub(s.ends[i])))
			}
			return gaps, len(s.starts), true
		}
	}
}
