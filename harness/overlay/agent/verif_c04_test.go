//go:build verif

package main

import (
	"context"
	"fmt"
	"net/http"
	"sync"
	"testing"
	"time"
)

// TestVerifC04Dedup drives the real pollForNewRequests (LRU dedup, goroutine
// per request, ReadRequest with retries, forwardRequest through the real
// handler chain) with scripted histories of pending-list replies and counts
// how often the backend is invoked per request ID.
func TestVerifC04Dedup(t *testing.T) {
	out := verifOpenOut(t)
	defer out.close()
	rng := &verifRng{s: verifSeed()}
	be := newVerifBackend()
	defer be.srv.Close()
	*proxy = "http://verif-proxy.invalid/"
	*host = be.host()
	savedPT := *proxyTimeout
	*proxyTimeout = 150 * time.Millisecond // (the timeout of a call to the proxy; the harness's own client does not use it)
	defer func() { *proxyTimeout = savedPT }()
	hp, err := hostProxy(context.Background(), *host, "", false, false)
	if err != nil {
		t.Fatal(err)
	}
	type hist struct {
		name    string
		lists   [][]string
		scripts map[string][]int
		delays  []int            // milliseconds the proxy takes to answer list call i
		ups     map[string][]int // outcome of successive response-upload attempts per ID
		sizes   map[string]int   // response size per ID (default 10)
		kinds   []int            // outcome kind of list call i (default OK)
	}
	var hs []hist
	mk := func(prefix string, ns ...[]int) [][]string {
		var l [][]string
		for _, g := range ns {
			var ids []string
			for _, n := range g {
				ids = append(ids, fmt.Sprintf("%s-%d", prefix, n))
			}
			l = append(l, ids)
		}
		return l
	}
	hs = append(hs, hist{name: "repeat", lists: mk("h0", []int{1}, []int{1}, []int{1, 1}, []int{}, []int{1})})
	hs = append(hs, hist{name: "perm", lists: mk("h1", []int{1, 2, 3}, []int{3, 2, 1}, []int{2, 3, 1, 4}, []int{4, 4})})
	hs = append(hs, hist{name: "overlap", lists: mk("h2", []int{1, 2}, []int{2, 3}, []int{3, 4}, []int{1, 4, 5})})
	// App Engine style: every poll re-lists all requests that have no response yet
	{
		var l [][]string
		for i := 1; i <= 12; i++ {
			var ids []string
			for j := 1; j <= i; j++ {
				ids = append(ids, fmt.Sprintf("h3-%d", j))
			}
			l = append(l, ids)
		}
		hs = append(hs, hist{name: "relist-all", lists: l})
	}
	// 1000 distinct IDs, then the first one again (still inside the window)
	{
		var all []string
		for i := 1; i <= 1000; i++ {
			all = append(all, fmt.Sprintf("h4-%d", i))
		}
		hs = append(hs, hist{name: "window-1000", lists: [][]string{all[:500], all[500:], {all[0]}, {all[999], all[1]}}})
	}
	// fetch failures: k failing attempts of several kinds, then success (or never)
	{
		sc := map[string][]int{}
		var ids []string
		kinds := []int{verifNetErr, verif500}
		n := 0
		for k := 0; k <= 4; k++ {
			for _, kind := range kinds {
				n++
				id := fmt.Sprintf("h5-%d", n)
				ids = append(ids, id)
				s := make([]int, k)
				for i := range s {
					s[i] = kind
				}
				sc[id] = s
			}
		}
		for _, kind := range []int{verif404, verifGarbage, verifBadHeader} {
			n++
			id := fmt.Sprintf("h5-%d", n)
			ids = append(ids, id)
			sc[id] = []int{kind}
		}
		hs = append(hs, hist{name: "fetch-failures", lists: [][]string{ids, ids}, scripts: sc})
	}
	// one long-outstanding request is re-listed in every poll (as the App Engine proxy does) while 1100 short ones come and
	// go, never more than 101 outstanding at a time: the long one stays inside the window because every listing refreshes it
	{
		var l [][]string
		n := 0
		for p := 0; p < 11; p++ {
			ids := []string{"h8-long"}
			for j := 0; j < 100; j++ {
				n++
				ids = append(ids, fmt.Sprintf("h8-%d", n))
			}
			l = append(l, ids)
		}
		l = append(l, []string{"h8-long"})
		hs = append(hs, hist{name: "relisted-while-1100-pass", lists: l})
	}
	// re-listings spread over time (far longer than -proxy-timeout, set to 150 ms for this test): the window is about
	// how many other IDs have been seen since, not about how long ago
	hs = append(hs, hist{name: "relisted-after-pauses", lists: mk("h9", []int{1, 2}, []int{1}, []int{2, 1}, []int{1, 2, 3}), delays: []int{0, 400, 400, 400}})
	// pending-list calls that fail (5xx, transport error, unparsable reply) between re-listings of the same IDs, as the
	// App Engine proxy re-lists every request that has no response yet: what was dispatched before the failure stays dispatched
	hs = append(hs, hist{name: "relisted-across-failed-polls", lists: mk("h10", []int{1, 2}, []int{}, []int{1, 2}, []int{}, []int{2, 1, 3}, []int{}, []int{}, []int{1, 2, 3, 4}),
		kinds: []int{verifOK, verif500, verifOK, verifNetErr, verifOK, verifGarbage, verif404, verifOK}})
	// response-upload failures after the backend has already executed the request: transport errors and 5xx,
	// as many as the upload retries absorb and more, small responses and ones beyond the replay buffer
	{
		ups := map[string][]int{}
		sizes := map[string]int{}
		var ids []string
		n := 0
		for _, sz := range []int{10, 6000, 70000} {
			for _, sc := range [][]int{{verifNetErr}, {verifNetErr, verifNetErr}, {verifNetErr, verifNetErr, verifNetErr}, {verifNetErr, verifNetErr, verifNetErr, verifNetErr, verifNetErr, verifNetErr, verifNetErr, verifNetErr, verifNetErr},
				{verif500}, {verif500, verif500, verif500}, {verif500, verifNetErr, verif500, verifNetErr, verif500, verifNetErr, verif500, verifNetErr, verif500}} {
				n++
				id := fmt.Sprintf("h7-%d", n)
				ids = append(ids, id)
				ups[id] = sc
				sizes[id] = sz
			}
		}
		hs = append(hs, hist{name: "upload-failures", lists: [][]string{ids, ids, {}, ids}, ups: ups, sizes: sizes})
	}
	nrand := 12
	if verifThorough() {
		nrand = 300
		var all []string
		for i := 1; i <= 1001; i++ {
			all = append(all, fmt.Sprintf("h6-%d", i))
		}
		// one more than the window: the first ID is forgotten (outside the property's hypothesis; recorded only)
		hs = append(hs, hist{name: "beyond-window-1001", lists: [][]string{all, {all[0]}}})
	}
	for r := 0; r < nrand; r++ {
		nid := 1 + rng.intn(12)
		nl := 1 + rng.intn(10)
		var l [][]string
		sc := map[string][]int{}
		for i := 0; i < nl; i++ {
			var ids []string
			for j := rng.intn(6); j > 0; j-- {
				ids = append(ids, fmt.Sprintf("r%d-%d", r, 1+rng.intn(nid)))
			}
			l = append(l, ids)
		}
		for j := 1; j <= nid; j++ {
			if rng.intn(4) == 0 {
				k := rng.intn(5)
				s := make([]int, k)
				for i := range s {
					s[i] = 1 + rng.intn(2)
				}
				sc[fmt.Sprintf("r%d-%d", r, j)] = s
			}
		}
		hs = append(hs, hist{name: "random", lists: l, scripts: sc})
	}

	var wg sync.WaitGroup
	sem := make(chan struct{}, 8)
	for hi, h := range hs {
		wg.Add(1)
		sem <- struct{}{}
		go func(hi int, h hist) {
			defer wg.Done()
			defer func() { <-sem }()
			fp := newVerifFakeProxy()
			fp.lists = h.lists
			fp.listDelay = h.delays
			fp.listKinds = h.kinds
			ids := map[string]bool{}
			for _, l := range h.lists {
				for _, id := range l {
					ids[id] = true
				}
			}
			for id := range ids {
				// slow responses so that uploads are still in flight during later polls
				sz := 10
				if h.sizes[id] > 0 {
					sz = h.sizes[id]
				}
				fp.addRequest(id, "u@example.com", verifRawRequest("GET", id, sz, 5+len(id)%20, nil, nil), h.scripts[id])
				if u := h.ups[id]; len(u) > 0 {
					fp.upScript[id] = u
				}
			}
			ctx, cancel := context.WithCancel(context.Background())
			fp.afterList = cancel
			client := &http.Client{Transport: fp}
			done := make(chan struct{})
			go func() { pollForNewRequests(ctx, client, hp, "verif-backend"); close(done) }()
			select {
			case <-done:
			case <-time.After(60 * time.Second):
				out.emit(map[string]interface{}{"kind": "history", "name": h.name, "error": "poll loop did not stop"})
				return
			}
			idle := 400 * time.Millisecond
			if len(h.ups) > 0 {
				idle = 1500 * time.Millisecond
			}
			// quiet for a while AND every request whose fetch succeeds has reached the backend (under load, with a thousand workers
			// of another history running, that alone can take longer than the idle period)
			willSucceed := func(script []int) bool {
				for i := 0; i < 3; i++ {
					k := verifOK
					if i < len(script) {
						k = script[i]
					}
					if k == verifOK {
						return true
					}
					if k != verifNetErr && k != verif500 {
						return false
					}
				}
				return false
			}
			fp.quiesce(idle, 40*time.Second, func() bool {
				// (the upload to the proxy is opened before the backend is asked, so it is the backend's record that counts)
				reached := map[string]bool{}
				for _, v := range be.invocations() {
					reached[v.Tok] = true
				}
				for id := range ids {
					if willSucceed(h.scripts[id]) && !reached[id] {
						return false
					}
				}
				return true
			})
			// ... and the answers have been uploaded
			time.Sleep(100 * time.Millisecond)
			inv := map[string]int{}
			for _, v := range be.invocations() {
				if ids[v.Tok] {
					inv[v.Tok]++
				}
			}
			fp.mu.Lock()
			ups := map[string]int{}
			for _, u := range fp.uploads {
				ups[u.ID]++
			}
			att := map[string]int{}
			for id, sr := range fp.reqs {
				att[id] = sr.count
			}
			fp.mu.Unlock()
			scripts := map[string][]int{}
			for id := range ids {
				if s, ok := h.scripts[id]; ok {
					scripts[id] = s
				}
			}
			out.emit(map[string]interface{}{"kind": "history", "index": hi, "name": h.name, "lists": h.lists, "fetch_scripts": scripts, "upload_scripts": h.ups,
				"invocations": inv, "uploads": ups, "fetch_attempts": att})
		}(hi, h)
	}
	wg.Wait()
}
