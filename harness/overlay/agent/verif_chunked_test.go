//go:build verif

package main

import (
	"bytes"
	"encoding/hex"
	"io"
	"net/http/httputil"
	"testing"
)

// TestVerifChunked: net/http's chunked writer and reader (the coding of every response upload and of every body of
// unknown length) on random write sequences, and the reader on prefixes cut at every kind of position.  The rows are
// compared with Codec/Chunked.v (encode, decode) inside Coq.
func TestVerifChunked(t *testing.T) {
	out := verifOpenOut(t)
	defer out.close()
	rng := &verifRng{s: verifSeed()}
	n := 60
	if verifThorough() {
		n = 2000
	}
	framingLike := "\r\n0123abcdef;: "
	sizes := []int{0, 1, 1, 2, 9, 10, 15, 16, 17, 255, 256, 257, 4095, 4096, 4097}
	for i := 0; i < n; i++ {
		nw := rng.intn(6)
		var writes [][]byte
		for k := 0; k < nw; k++ {
			sz := sizes[rng.intn(len(sizes))]
			if i%7 == 0 {
				sz = rng.intn(40)
			}
			b := make([]byte, sz)
			fill := byte(rng.next())
			for j := range b {
				b[j] = fill // long runs keep the case files small (run-length encoded on the Coq side)
			}
			for j := 0; j < len(b) && (j < 24 || rng.intn(len(b)/6+1) == 0); j++ {
				pos := j
				if j >= 24 {
					pos = rng.intn(len(b))
				}
				switch rng.intn(4) {
				case 0:
					b[pos] = framingLike[rng.intn(len(framingLike))] // bytes that look like the framing
				default:
					b[pos] = byte(rng.next())
				}
			}
			writes = append(writes, b)
		}
		trailer := []byte{}
		if rng.intn(3) == 0 {
			trailer = []byte("X-Trailer: v\r\n")
		}
		var wire bytes.Buffer
		cw := httputil.NewChunkedWriter(&wire)
		for _, w := range writes {
			cw.Write(w)
		}
		cw.Close()
		wire.Write(trailer)
		wire.WriteString("\r\n")
		full := wire.Bytes()
		// cut positions: everything for short encodings, a sample (with the last 8 positions) otherwise
		var cuts []int
		if len(full) <= 80 {
			for k := 0; k <= len(full); k++ {
				cuts = append(cuts, k)
			}
		} else {
			for k := 0; k < 10; k++ {
				cuts = append(cuts, rng.intn(len(full)+1))
			}
			for k := len(full) - 8 - len(trailer); k <= len(full); k++ {
				if k >= 0 {
					cuts = append(cuts, k)
				}
			}
		}
		type cut struct {
			K        int  `json:"k"`
			Complete bool `json:"complete"`
		}
		var cs []cut
		for _, k := range cuts {
			body, err := io.ReadAll(httputil.NewChunkedReader(bytes.NewReader(full[:k])))
			_ = body
			cs = append(cs, cut{K: k, Complete: err == nil})
		}
		var ws []string
		for _, w := range writes {
			ws = append(ws, hex.EncodeToString(w))
		}
		body, err := io.ReadAll(httputil.NewChunkedReader(bytes.NewReader(full)))
		out.emit(map[string]interface{}{"kind": "chunked", "writes": ws, "trailer": hex.EncodeToString(trailer), "wire": hex.EncodeToString(full), "cuts": cs,
			"go_roundtrip_ok": err == nil && bytes.Equal(body, bytes.Join(writes, nil))})
	}
}
