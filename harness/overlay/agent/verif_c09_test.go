//go:build verif

package main

import (
	"bytes"
	"context"
	"fmt"
	"net/http"
	"net/http/httptest"
	"strings"
	"sync"
	"testing"
	"time"

	"github.com/google/inverting-proxy/agent/sessions"
	"github.com/gorilla/websocket"
)

// TestVerifC09: all combinations of -forward-user-id, -strip-credentials,
// websocket shim and session tracking; client header sets with forged /
// repeated / differently-cased identity headers and Authorization headers;
// the backend records the headers of HTTP requests and websocket handshakes.
func TestVerifC09(t *testing.T) {
	out := verifOpenOut(t)
	defer out.close()
	rng := &verifRng{s: verifSeed()}
	type seen struct {
		mu   sync.Mutex
		reqs map[string]http.Header // token -> headers
	}
	sn := &seen{reqs: map[string]http.Header{}}
	up := websocket.Upgrader{}
	be := httptest.NewServer(http.HandlerFunc(func(w http.ResponseWriter, r *http.Request) {
		tok := r.URL.Query().Get("tok")
		sn.mu.Lock()
		sn.reqs[tok] = r.Header.Clone()
		sn.mu.Unlock()
		if websocket.IsWebSocketUpgrade(r) {
			c, err := up.Upgrade(w, r, nil)
			if err == nil {
				c.Close()
			}
			return
		}
		w.Write([]byte("ok"))
	}))
	defer be.Close()
	*proxy = "http://verif-proxy.invalid/"
	*host = strings.TrimPrefix(be.URL, "http://")

	uidNames := []string{"X-Inverting-Proxy-User-ID", "x-inverting-proxy-user-id", "X-INVERTING-PROXY-USER-ID", "X-Inverting-Proxy-User-Id"}
	authNames := []string{"Authorization", "authorization", "AUTHORIZATION"}
	users := []string{"alice@example.com", "", "bob+x@example.org", "jürgen@example.com", "mallory@evil"}
	n := 12
	if verifThorough() {
		n = 400
	}
	caseNo := 0
	for cfg := 0; cfg < 16; cfg++ {
		fwd, strip, shim, sess := cfg&1 != 0, cfg&2 != 0, cfg&4 != 0, cfg&8 != 0
		*forwardUserID, *stripCredentials = fwd, strip
		sessionLRU = nil
		if sess {
			sessionLRU = sessions.NewCache("verif-session", time.Hour, 10, true)
		}
		sp := ""
		if shim {
			sp = "verifshim"
		}
		*shimPath = sp // as main() has it: the flag is what hostProxy is called with
		hp, err := hostProxy(context.Background(), *host, sp, shim, false)
		if err != nil {
			t.Fatal(err)
		}
		fp := newVerifFakeProxy()
		type creq struct {
			id, tok, user string
			fields        [][2]string
			ws            bool
			userinfo      bool
		}
		var reqs []creq
		for i := 0; i < n; i++ {
			caseNo++
			c := creq{id: fmt.Sprintf("c09-%d-%d", cfg, i), tok: fmt.Sprintf("c09t%dx%d", cfg, i), user: users[rng.intn(len(users))], ws: shim && i%3 == 0}
			nforge := []int{0, 1, 1, 3}[rng.intn(4)]
			for k := 0; k < nforge; k++ {
				v := []string{"mallory@evil", "", c.user, "root"}[rng.intn(4)]
				c.fields = append(c.fields, [2]string{uidNames[rng.intn(len(uidNames))], v})
			}
			nauth := rng.intn(3)
			for k := 0; k < nauth; k++ {
				// credential values of every shape: scheme + token, a bare token without a space, a tab instead of the space, empty
				val := []string{fmt.Sprintf("Bearer secret-%d", k), fmt.Sprintf("baretoken%d", k), fmt.Sprintf("Bearer\tsecret-%d", k), "", fmt.Sprintf("Basic c2VjcmV0LSVk%d", k)}[(i+k)%5]
				c.fields = append(c.fields, [2]string{authNames[rng.intn(len(authNames))], val})
			}
			c.fields = append(c.fields, [2]string{"X-Other", "keep"})
			if c.ws && i%4 == 0 {
				// a client that nominates the identity and credential headers as hop-by-hop (shim opens only: on the plain
				// path a request with a Connection header cannot come out of the proxy, which strips it)
				c.fields = append(c.fields, [2]string{"Connection", []string{"keep-alive, x-inverting-proxy-user-id", "X-Inverting-Proxy-User-ID", "close, X-INVERTING-PROXY-USER-ID, authorization"}[(i/4)%3]})
			}
			// shuffle
			for a := len(c.fields) - 1; a > 0; a-- {
				b := rng.intn(a + 1)
				c.fields[a], c.fields[b] = c.fields[b], c.fields[a]
			}
			var raw bytes.Buffer
			if c.ws {
				body := "ws://anything.invalid/ws?tok=" + c.tok
				if i%2 == 1 {
					// credentials inside the target URL (rejected by the websocket dialer as malformed)
					c.userinfo = true
					body = []string{"ws://mallory:s3cret@anything.invalid/ws?tok=", "wss://mallory@anything.invalid/ws?tok=", "ws://:pw@anything.invalid/ws?tok="}[(i/6)%3] + c.tok
				}
				fmt.Fprintf(&raw, "POST /verifshim/open HTTP/1.1\r\nHost: verif.example\r\n")
				for _, f := range c.fields {
					fmt.Fprintf(&raw, "%s: %s\r\n", f[0], f[1])
				}
				fmt.Fprintf(&raw, "Content-Length: %d\r\n\r\n%s", len(body), body)
			} else {
				// backend paths that merely resemble the shim's: they start with the same characters, or contain it further down
				path := []string{"/p", "/verifshim-admin/users", "/p", "/verifshim.js", "/verifshimmy/data", "/x/verifshim/data", "/p", "/verifshim-poll"}[i%8]
				// every method, also a CORS preflight (OPTIONS with Access-Control-Request-Method) and a HEAD
				method := []string{"GET", "POST", "OPTIONS", "GET", "HEAD", "PUT", "OPTIONS", "DELETE", "PATCH", "GET", "OPTIONS"}[(i+cfg)%11]
				fmt.Fprintf(&raw, "%s %s?tok=%s HTTP/1.1\r\nHost: verif.example\r\n", method, path, c.tok)
				if method == "OPTIONS" && (i+cfg)%11 != 10 {
					fmt.Fprintf(&raw, "Origin: https://app.example\r\nAccess-Control-Request-Method: POST\r\nAccess-Control-Request-Headers: authorization, x-inverting-proxy-user-id\r\n")
				}
				for _, f := range c.fields {
					fmt.Fprintf(&raw, "%s: %s\r\n", f[0], f[1])
				}
				raw.WriteString("\r\n")
			}
			fp.addRequest(c.id, c.user, raw.Bytes(), nil)
			if i%5 == 3 {
				if fp.repeatUserHeader == nil {
					fp.repeatUserHeader = map[string]bool{}
				}
				fp.repeatUserHeader[c.id] = true
			}
			reqs = append(reqs, c)
		}
		var ids []string
		for _, c := range reqs {
			ids = append(ids, c.id)
		}
		fp.lists = [][]string{ids}
		ctx, cancel := context.WithCancel(context.Background())
		fp.afterList = cancel
		done := make(chan struct{})
		go func() { pollForNewRequests(ctx, &http.Client{Transport: fp}, hp, "verif-backend"); close(done) }()
		<-done
		fp.quiesce(200*time.Millisecond, 20*time.Second, func() bool {
			fp.mu.Lock()
			defer fp.mu.Unlock()
			return len(fp.uploads) >= len(reqs)
		})
		sn.mu.Lock()
		for _, c := range reqs {
			h, ok := sn.reqs[c.tok]
			out.emit(map[string]interface{}{"kind": "c09", "fwd": fwd, "strip": strip, "shim": shim, "sessions": sess, "websocket": c.ws, "userinfo": c.userinfo,
				"user": c.user, "fields": c.fields, "reached_backend": ok,
				"uid": h.Values("X-Inverting-Proxy-User-ID"), "auth": h.Values("Authorization"), "other": h.Values("X-Other")})
		}
		sn.mu.Unlock()
	}
	*forwardUserID, *stripCredentials = false, false
	*shimPath = ""
	sessionLRU = nil
}
