//go:build verif

package main

import (
	"bufio"
	"context"
	"crypto/sha1"
	"encoding/base64"
	"fmt"
	"net"
	"net/http"
	"strings"
	"testing"
	"time"

	"github.com/google/inverting-proxy/agent/sessions"
)

// a raw TCP backend whose behaviour depends on the request path
func verifStartFaultyBackend() (addr string, stop func()) {
	ln, err := net.Listen("tcp", "127.0.0.1:0")
	if err != nil {
		panic(err)
	}
	go func() {
		for {
			c, err := ln.Accept()
			if err != nil {
				return
			}
			go func(c net.Conn) {
				defer c.Close()
				br := bufio.NewReader(c)
				for {
					req, err := http.ReadRequest(br)
					if err != nil {
						return
					}
					p := req.URL.Path
					switch {
					case strings.HasPrefix(p, "/ok/"):
						tok := strings.TrimPrefix(p, "/ok/")
						body := "probe:" + tok
						fmt.Fprintf(c, "HTTP/1.1 200 OK\r\nX-Probe: %s\r\nContent-Length: %d\r\n\r\n%s", tok, len(body), body)
					case strings.HasPrefix(p, "/close-before-headers"):
						return
					case strings.HasPrefix(p, "/close-mid-headers"):
						fmt.Fprintf(c, "HTTP/1.1 200 OK\r\nX-Partial: yes\r\nConten")
						return
					case strings.HasPrefix(p, "/reset-mid-body"):
						fmt.Fprintf(c, "HTTP/1.1 200 OK\r\nContent-Length: 100000\r\n\r\n%s", strings.Repeat("x", 5000))
						if tc, ok := c.(*net.TCPConn); ok {
							tc.SetLinger(0)
						}
						return
					case strings.HasPrefix(p, "/close-mid-chunked"):
						fmt.Fprintf(c, "HTTP/1.1 200 OK\r\nTransfer-Encoding: chunked\r\n\r\n5\r\nhello\r\n100\r\npartial")
						return
					case strings.HasPrefix(p, "/status-099"):
						fmt.Fprintf(c, "HTTP/1.1 099 Bogus\r\nContent-Length: 2\r\n\r\nok")
					case strings.HasPrefix(p, "/status-000"):
						fmt.Fprintf(c, "HTTP/1.1 000 Zero\r\nContent-Length: 2\r\n\r\nok")
					case strings.HasPrefix(p, "/status-999"):
						fmt.Fprintf(c, "HTTP/1.1 999 Odd\r\nContent-Length: 2\r\n\r\nok")
					case strings.HasPrefix(p, "/status-1000"):
						fmt.Fprintf(c, "HTTP/1.1 1000 Long\r\nContent-Length: 2\r\n\r\nok")
						return
					case strings.HasPrefix(p, "/setcookie-malformed"):
						// a healthy response whose Set-Cookie lines net/http cannot parse (session tracking reads them)
						fmt.Fprintf(c, "HTTP/1.1 200 OK\r\nSet-Cookie: novalue\r\nSet-Cookie: =x\r\nSet-Cookie: lang=\xe6\x97\xa5\xe6\x9c\xac\r\nSet-Cookie: a\\b=c\r\nSet-Cookie: sp ace=1\r\nSet-Cookie: ok=1; Path=/\r\nContent-Length: 2\r\n\r\nok")
					case strings.HasPrefix(p, "/html-legacy-charset"):
						// a healthy HTML page in a single-byte character set: bytes that are not UTF-8 before <head>, little after it
						// (the shim-script splice and the banner look at the text of HTML responses)
						page := "<!-- caf\xe9 na\xefve \xfc\xf6\xe4\xdf \xa9\xae\xb1\xb5\xe6\xf8\xe5\xc6\xd8\xc5 --><html><head></head></html>"
						fmt.Fprintf(c, "HTTP/1.1 200 OK\r\nContent-Type: text/html; charset=iso-8859-1\r\nContent-Length: %d\r\n\r\n%s", len(page), page)
					case strings.HasPrefix(p, "/html-head-at-end-of-read"):
						// ... and one whose first piece ends right after <head>
						fmt.Fprintf(c, "HTTP/1.1 200 OK\r\nContent-Type: text/html\r\nTransfer-Encoding: chunked\r\n\r\n")
						first := "\xff\xfe\xfd<html><head>"
						fmt.Fprintf(c, "%x\r\n%s\r\n", len(first), first)
						time.Sleep(50 * time.Millisecond)
						rest := "</head><body>\xe9</body></html>"
						fmt.Fprintf(c, "%x\r\n%s\r\n0\r\n\r\n", len(rest), rest)
					case strings.HasPrefix(p, "/malformed-status"):
						fmt.Fprintf(c, "HTTP/1.1 abc nonsense\r\n\r\n")
						return
					case strings.HasPrefix(p, "/garbage"):
						c.Write([]byte("\x00\x01\x02 this is not http\r\n\r\n"))
						return
					case strings.HasPrefix(p, "/bad-chunk"):
						fmt.Fprintf(c, "HTTP/1.1 200 OK\r\nTransfer-Encoding: chunked\r\n\r\nZZZ\r\nnot a chunk\r\n")
						return
					case strings.HasPrefix(p, "/huge-header"):
						fmt.Fprintf(c, "HTTP/1.1 200 OK\r\nX-Huge: %s\r\nContent-Length: 0\r\n\r\n", strings.Repeat("h", 2<<20))
					case strings.HasPrefix(p, "/ws-idle"):
						// a websocket backend that accepts and then only reads
						key := req.Header.Get("Sec-WebSocket-Key")
						h := sha1.Sum([]byte(key + "258EAFA5-E914-47DA-95CA-C5AB0DC85B11"))
						fmt.Fprintf(c, "HTTP/1.1 101 Switching Protocols\r\nUpgrade: websocket\r\nConnection: Upgrade\r\nSec-WebSocket-Accept: %s\r\n\r\n", base64.StdEncoding.EncodeToString(h[:]))
						buf := make([]byte, 4096)
						for {
							if _, err := br.Read(buf); err != nil {
								return
							}
						}
					case strings.HasPrefix(p, "/ws-send-close"):
						// a websocket backend that sends one message and hangs up at once
						key := req.Header.Get("Sec-WebSocket-Key")
						h := sha1.Sum([]byte(key + "258EAFA5-E914-47DA-95CA-C5AB0DC85B11"))
						fmt.Fprintf(c, "HTTP/1.1 101 Switching Protocols\r\nUpgrade: websocket\r\nConnection: Upgrade\r\nSec-WebSocket-Accept: %s\r\n\r\n", base64.StdEncoding.EncodeToString(h[:]))
						c.Write([]byte{0x81, 3, 'b', 'y', 'e'})
						c.Write([]byte{0x88, 0})
						time.Sleep(50 * time.Millisecond)
						return
					case strings.HasPrefix(p, "/slow"):
						time.Sleep(300 * time.Millisecond)
						fmt.Fprintf(c, "HTTP/1.1 200 OK\r\nContent-Length: 2\r\n\r\nok")
					default:
						fmt.Fprintf(c, "HTTP/1.1 404 Not Found\r\nContent-Length: 0\r\n\r\n")
					}
				}
			}(c)
		}
	}()
	return ln.Addr().String(), func() { ln.Close() }
}

// TestVerifC07: a stream of healthy probe requests; every fault kind at every injection point
// is injected among them.  Workers are goroutines of this process: a panic or fatal error in
// one of them ends the test binary, which the driver reports as a crash of the agent.
func TestVerifC07(t *testing.T) {
	defer func() { *shimPath, *shimWebsockets, *forceHTTP2 = "", false, false }()
	out := verifOpenOut(t)
	defer out.close()
	addr, stop := verifStartFaultyBackend()
	defer stop()
	*proxy = "http://verif-proxy.invalid/"
	*forwardUserID, *stripCredentials = true, true
	type fault struct {
		Point string `json:"point"`
		Kind  string `json:"kind"`
	}
	var faults []fault
	for _, k := range []string{"neterr", "500", "404", "garbage", "500-x14"} {
		faults = append(faults, fault{"list", k})
	}
	for _, k := range []string{"neterr-x3", "500-x3", "neterr-then-ok", "404", "garbage", "badheader"} {
		faults = append(faults, fault{"fetch", k})
	}
	for _, k := range []string{"unreachable", "close-before-headers", "close-mid-headers", "reset-mid-body", "close-mid-chunked", "malformed-status", "garbage", "bad-chunk", "huge-header", "status-099", "status-000", "status-999", "status-1000", "setcookie-malformed", "html-legacy-charset", "html-head-at-end-of-read"} {
		faults = append(faults, fault{"backend", k})
	}
	for _, k := range []string{"500-x3", "neterr-x3", "500-then-ok"} {
		faults = append(faults, fault{"upload", k})
	}
	for _, k := range []string{"open-garbage", "open-unreachable", "open-unreachable-then-use", "open-refused-then-use", "open-ws-send-close-then-use", "open-ws-idle-then-data-shapes", "data-garbage", "data-unknown", "poll-unknown", "close-unknown", "poll-garbage"} {
		faults = append(faults, fault{"shim", k})
	}
	configs := []string{"plain", "shim+sessions", "shim+sessions+injection"}
	for _, config := range configs {
		sessionLRU = nil
		sp := ""
		*enableWebsocketsInjection = config == "shim+sessions+injection"
		if config == "shim+sessions" || config == "shim+sessions+injection" {
			sessionLRU = sessions.NewCache("verif-session", time.Hour, 100, true)
			sp = "verifshim"
		}
		// one handler chain for the healthy backend, one pointing at a dead port
		*host = addr
		*shimPath, *shimWebsockets = sp, sp != "" // the flags, as main() has them
		hp, err := hostProxy(context.Background(), addr, sp, sp != "", false)
		if err != nil {
			t.Fatal(err)
		}
		deadLn, _ := net.Listen("tcp", "127.0.0.1:0")
		dead := deadLn.Addr().String()
		deadLn.Close()
		hpDead, err := hostProxy(context.Background(), dead, sp, sp != "", false)
		if err != nil {
			t.Fatal(err)
		}
		for fi, f := range faults {
			if f.Kind == "500-x14" && config != "plain" {
				continue
			}
			// written through at once: if the process dies, the fault in progress is on record
			out.emit(map[string]interface{}{"kind": "fault-start", "config": config, "fault": f})
			out.mu.Lock()
			out.w.Flush()
			out.mu.Unlock()
			fp := newVerifFakeProxy()
			mkReq := func(method, path, body string) []byte {
				if body != "" {
					return []byte(fmt.Sprintf("%s %s HTTP/1.1\r\nHost: verif.example\r\nContent-Length: %d\r\n\r\n%s", method, path, len(body), body))
				}
				return []byte(fmt.Sprintf("%s %s HTTP/1.1\r\nHost: verif.example\r\n\r\n", method, path))
			}
			probe := func(name string) string {
				id := fmt.Sprintf("probe-%s-%d-%s", config, fi, name)
				fp.addRequest(id, "u@example.com", mkReq("GET", "/ok/"+id, ""), nil)
				return id
			}
			before := []string{probe("b1"), probe("b2")}
			during := []string{probe("d1"), probe("d2"), probe("d3")}
			after := []string{probe("a1"), probe("a2")}
			fid := fmt.Sprintf("fault-%s-%d", config, fi)
			handler := hp
			var sepRaw []byte // a faulted request that runs in its own poll loop (possibly on the handler chain of the dead backend)
			var lists [][]string
			lists = append(lists, before)
			switch f.Point {
			case "list":
				lists = append(lists, during)
				kind := map[string]int{"neterr": verifNetErr, "500": verif500, "404": verif404, "garbage": verifGarbage, "500-x14": verif500}[f.Kind]
				fp.listKinds = []int{verifOK, verifOK, kind, kind}
				lists = append(lists, nil, nil)
				if f.Kind == "500-x14" {
					// a long outage of the pending-list endpoint: the requests listed after it must still be served promptly
					for k := 0; k < 12; k++ {
						fp.listKinds = append(fp.listKinds, kind)
						lists = append(lists, nil)
					}
				}
			case "fetch":
				script := map[string][]int{"neterr-x3": {verifNetErr, verifNetErr, verifNetErr}, "500-x3": {verif500, verif500, verif500}, "neterr-then-ok": {verifNetErr},
					"404": {verif404}, "garbage": {verifGarbage}, "badheader": {verifBadHeader}}[f.Kind]
				fp.addRequest(fid, "u@example.com", mkReq("GET", "/ok/"+fid, ""), script)
				lists = append(lists, append([]string{fid}, during...))
			case "backend":
				path := "/" + f.Kind
				if f.Kind == "unreachable" {
					handler = hpDead
					path = "/ok/" + fid
				}
				sepRaw = mkReq("GET", path, "")
				lists = append(lists, during)
			case "upload":
				fp.addRequest(fid, "u@example.com", mkReq("GET", "/ok/"+fid, ""), nil)
				fp.upScript[fid] = map[string][]int{"500-x3": {verif500, verif500, verif500}, "neterr-x3": {verifNetErr, verifNetErr, verifNetErr}, "500-then-ok": {verif500}}[f.Kind]
				lists = append(lists, append([]string{fid}, during...))
			case "shim":
				if sp == "" {
					continue
				}
				var raw []byte
				switch f.Kind {
				case "open-garbage":
					raw = mkReq("POST", "/verifshim/open", "%zz\x00")
				case "open-unreachable", "open-unreachable-then-use":
					handler = hpDead
					raw = mkReq("POST", "/verifshim/open", "ws://x/ws")
				case "open-ws-send-close-then-use":
					// the open succeeds; the backend sends one message and closes before anything is polled
					raw = mkReq("POST", "/verifshim/open", "ws://x/ws-send-close")
				case "open-ws-idle-then-data-shapes":
					raw = mkReq("POST", "/verifshim/open", "ws://x/ws-idle")
				case "open-refused-then-use":
					// the healthy backend answers the websocket handshake with a plain HTTP response
					raw = mkReq("POST", "/verifshim/open", "ws://x/ok/not-a-websocket")
				case "data-garbage":
					raw = mkReq("POST", "/verifshim/data", "{{{")
				case "data-unknown":
					raw = mkReq("POST", "/verifshim/data", `[{"id":"nope","msg":"x"}]`)
				case "poll-unknown":
					raw = mkReq("POST", "/verifshim/poll", `{"id":"nope"}`)
				case "poll-garbage":
					raw = mkReq("POST", "/verifshim/poll", "\xff\xfe")
				case "close-unknown":
					raw = mkReq("POST", "/verifshim/close", `{"id":"nope"}`)
				}
				sepRaw = raw
				lists = append(lists, during)
			}
			lists = append(lists, after)
			fp.lists = lists
			var fpF *verifFakeProxy
			sepDone := make(chan struct{})
			if sepRaw != nil {
				fpF = newVerifFakeProxy()
				fpF.addRequest(fid, "u@example.com", sepRaw, nil)
				fpF.lists = [][]string{{fid}}
				ctxF, cancelF := context.WithCancel(context.Background())
				fpF.afterList = cancelF
				go func() {
					pollForNewRequests(ctxF, &http.Client{Transport: fpF}, handler, "verif-backend")
					close(sepDone)
				}()
			} else {
				close(sepDone)
			}
			ctx, cancel := context.WithCancel(context.Background())
			fp.afterList = cancel
			done := make(chan struct{})
			loopStart := time.Now()
			go func() { pollForNewRequests(ctx, &http.Client{Transport: fp}, hp, "verif-backend"); close(done) }()
			select {
			case <-done:
			case <-time.After(60 * time.Second):
				out.emit(map[string]interface{}{"kind": "fault", "config": config, "fault": f, "error": "poll loop wedged"})
				continue
			}
			loopMs := time.Since(loopStart).Milliseconds()
			<-sepDone
			expectProbes := len(before) + len(after) + len(during)
			fp.quiesce(300*time.Millisecond, 15*time.Second, func() bool {
				fp.mu.Lock()
				defer fp.mu.Unlock()
				n := 0
				for _, u := range fp.uploads {
					if strings.HasPrefix(u.ID, "probe-") {
						n++
					}
				}
				return n >= expectProbes
			})
			var allUploads []verifUpload
			if fpF != nil {
				fpF.quiesce(300*time.Millisecond, 10*time.Second, func() bool { fpF.mu.Lock(); defer fpF.mu.Unlock(); return len(fpF.uploads) >= 1 })
				fpF.mu.Lock()
				allUploads = append(allUploads, fpF.uploads...)
				fpF.mu.Unlock()
			}
			// a failed open followed by calls naming the session IDs it may have been given
			followup := []int{}
			if strings.HasSuffix(f.Kind, "-then-use") || strings.HasSuffix(f.Kind, "-then-data-shapes") {
				time.Sleep(200 * time.Millisecond)
				fpG := newVerifFakeProxy()
				var gids []string
				if strings.HasSuffix(f.Kind, "-then-data-shapes") {
					// data posts with every shape of message on a live session (with header injection on: JSON messages are rewritten)
					shapes := []string{`"plain"`, `"{\"resource\":\"oops\"}"`, `"{\"resource\":{\"headers\":[]}}"`, `"{\"resource\":[1]}"`, `"{\"resource\":{\"headers\":null}}"`, `"{\"resource\":null}"`,
						`"{\"resource\":{\"headers\":{\"a\":null}}}"`, `"[1,2]"`, `"null"`, `"{"`, `[42]`, `[null]`, `[{"a":1}]`, `[]`, `42`, `null`, `{"x":1}`, `["aGk="]`}
					for n := 1; n <= 60; n++ {
						for si, shape := range shapes {
							gid := fmt.Sprintf("%s-shape-%d-%d", fid, si, n)
							fpG.addRequest(gid, "u@example.com", mkReq("POST", "/verifshim/data", fmt.Sprintf(`[{"id":"%d","msg":%s}]`, n, shape)), nil)
							gids = append(gids, gid)
						}
					}
				}
				// the calls naming the session IDs a failed or finished open may have been given: first every poll, then every
				// data post, then every close - one phase at a time, so that which call meets the session first does not depend on
				// the scheduling of the workers
				phases := [][]string{gids}
				if strings.HasSuffix(f.Kind, "-then-use") {
					phases = nil
					for _, ep := range []string{"poll", "data", "close"} {
						var ph []string
						for n := 1; n <= 40; n++ {
							gid := fmt.Sprintf("%s-use-%s-%d", fid, ep, n)
							body := fmt.Sprintf(`{"id":"%d"}`, n)
							if ep == "data" {
								body = fmt.Sprintf(`{"id":"%d","msg":"x"}`, n)
							}
							fpG.addRequest(gid, "u@example.com", mkReq("POST", "/verifshim/"+ep, body), nil)
							ph = append(ph, gid)
						}
						phases = append(phases, ph)
						gids = append(gids, ph...)
					}
				}
				want := 0
				for _, ph := range phases {
					want += len(ph)
					fpP := fpG
					fpP.mu.Lock()
					fpP.lists = [][]string{ph}
					fpP.listCalls = 0
					fpP.mu.Unlock()
					ctxG, cancelG := context.WithCancel(context.Background())
					fpP.afterList = cancelG
					doneG := make(chan struct{})
					go func() {
						pollForNewRequests(ctxG, &http.Client{Transport: fpP}, handler, "verif-backend")
						close(doneG)
					}()
					<-doneG
					w := want
					fpG.quiesce(300*time.Millisecond, 15*time.Second, func() bool { fpG.mu.Lock(); defer fpG.mu.Unlock(); return len(fpG.uploads) >= w })
				}
				fpG.mu.Lock()
				for _, u := range fpG.uploads {
					followup = append(followup, u.Status)
				}
				fpG.mu.Unlock()
			}
			fp.mu.Lock()
			allUploads = append(allUploads, fp.uploads...)
			probeOK := map[string]bool{}
			faultStatus := -1
			for _, u := range allUploads {
				if strings.HasPrefix(u.ID, "probe-") {
					probeOK[u.ID] = u.Status == 200 && len(u.Header["X-Probe"]) == 1 && u.Header["X-Probe"][0] == u.ID
				}
				if u.ID == fid {
					faultStatus = u.Status
					if u.ParseErr != "" {
						faultStatus = -2
					}
				}
			}
			fp.mu.Unlock()
			res := map[string]interface{}{"kind": "fault", "config": config, "fault": f, "fault_upload_status": faultStatus, "followup_statuses": followup, "loop_ms": loopMs}
			for name, ids := range map[string][]string{"before": before, "during": during, "after": after} {
				ok := 0
				for _, id := range ids {
					if probeOK[id] {
						ok++
					}
				}
				res["probes_"+name] = []int{ok, len(ids)}
			}
			out.emit(res)
		}
	}
	sessionLRU = nil
	*forwardUserID, *stripCredentials = false, false
	*enableWebsocketsInjection = false
	out.emit(map[string]interface{}{"kind": "survived"})
}
