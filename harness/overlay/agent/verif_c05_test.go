//go:build verif

package main

import (
	"bufio"
	"context"
	"encoding/json"
	"fmt"
	"github.com/google/inverting-proxy/agent/utils"
	"io"
	"net/http"
	"net/http/httptest"
	"net/http/httputil"
	"os"
	"strings"
	"sync"
	"sync/atomic"
	"testing"
	"time"

	"golang.org/x/net/http2"
	"golang.org/x/net/http2/h2c"
)

type verifC05Case struct {
	ID     string `json:"id"`
	Chunks []int  `json:"chunks"`                // chunk sizes
	Pause  int    `json:"pause_ms"`              // pause of the backend between "observed" and the next chunk
	HTML   bool   `json:"html"`                  // text/html response (exercises the shim's body splice when enabled)
	Config string `json:"config"`                // plain | shim | banner
	CL     bool   `json:"content_length"`        // the backend declares Content-Length and still writes the body in pieces
	Proto  string `json:"proto"`                 // protocol version on the request line of the forwarded request
	Many   bool   `json:"many,omitempty"`        // one of the responses that are all held open at the same time
	Status int    `json:"status,omitempty"`      // status of the backend's response (0 = 200)
	Method string `json:"method,omitempty"`      // method of the forwarded request ("" = GET)
	Early  bool   `json:"early_hints,omitempty"` // the backend sends 103 Early Hints before its response
	Trail  bool   `json:"announced_trailer,omitempty"` // the backend announces a trailer (Trailer: X-Sum) and sends it after the last chunk
}

const verifC05Many = 40

type verifC05Obs struct {
	Delivered []bool  `json:"delivered"`  // chunk i reached the proxy before the backend wrote chunk i+1
	LatencyMs []int64 `json:"latency_ms"` // flush -> observed by the proxy
	Total     int     `json:"total_observed"`
	Uploads   int     `json:"uploads_completed"` // response uploads the proxy has read to the end
	Err       string  `json:"err,omitempty"`
}

// TestVerifC05: a lock-step backend (it writes chunk i+1 only after the proxy has seen
// chunk i) behind the real handler chain and NewResponseForwarder, uploading over real HTTP
// to a proxy endpoint that reads the upload incrementally.
func TestVerifC05(t *testing.T) {
	defer func() { *shimPath, *shimWebsockets, *forceHTTP2 = "", false, false }()
	out := verifOpenOut(t)
	defer out.close()
	rng := &verifRng{s: verifSeed()}
	const bound = 5 * time.Second
	var mu sync.Mutex
	cases := map[string]*verifC05Case{}
	observed := map[string]chan int{} // cumulative payload bytes seen by the proxy
	obs := map[string]*verifC05Obs{}

	var manyArrived int64
	manyAll := make(chan struct{})
	backend := httptest.NewServer(http.HandlerFunc(func(w http.ResponseWriter, r *http.Request) {
		id := strings.TrimPrefix(r.URL.Path, "/c05/")
		mu.Lock()
		c, ch, o := cases[id], observed[id], obs[id]
		mu.Unlock()
		if c == nil {
			w.WriteHeader(404)
			return
		}
		if c.HTML {
			w.Header().Set("Content-Type", "text/html")
		} else {
			w.Header().Set("Content-Type", "application/octet-stream")
		}
		if c.CL {
			total := 0
			for _, sz := range c.Chunks {
				total += sz
			}
			w.Header().Set("Content-Length", fmt.Sprint(total))
		}
		if c.Trail {
			w.Header().Set("Trailer", "X-Sum")
			defer func() { w.Header().Set("X-Sum", "after-the-last-chunk") }()
		}
		if c.Early {
			w.Header().Set("Link", "</style.css>; rel=preload")
			w.WriteHeader(103)
			w.Header().Del("Link")
		}
		if c.Status != 0 {
			w.WriteHeader(c.Status)
		} else {
			w.WriteHeader(200)
		}
		fl := w.(http.Flusher)
		sent := 0
		for i, sz := range c.Chunks {
			b := make([]byte, sz)
			for j := range b {
				b[j] = byte('a' + (i+j)%26)
			}
			w.Write(b)
			fl.Flush()
			sent += sz
			start := time.Now()
			ok := false
			deadline := time.After(bound)
		wait:
			for {
				select {
				case n := <-ch:
					if n >= sent {
						ok = true
						break wait
					}
				case <-deadline:
					break wait
				}
			}
			mu.Lock()
			o.Delivered = append(o.Delivered, ok)
			o.LatencyMs = append(o.LatencyMs, time.Since(start).Milliseconds())
			mu.Unlock()
			if !ok {
				return
			}
			if c.Many && i == 0 {
				// keep this response open until all of the many responses have had their first chunk relayed
				if atomic.AddInt64(&manyArrived, 1) == verifC05Many {
					close(manyAll)
				}
				select {
				case <-manyAll:
				case <-time.After(8 * time.Second):
					return
				}
			}
			time.Sleep(time.Duration(c.Pause) * time.Millisecond)
		}
	}))
	defer backend.Close()

	pendingLists := make(chan []string, 64)
	proxySrv := httptest.NewServer(http.HandlerFunc(func(w http.ResponseWriter, r *http.Request) {
		id := r.Header.Get("X-Inverting-Proxy-Request-ID")
		switch {
		case strings.HasSuffix(r.URL.Path, "agent/pending"):
			select {
			case l := <-pendingLists:
				b, _ := json.Marshal(l)
				w.Write(b)
			case <-r.Context().Done():
			case <-time.After(2 * time.Second):
				w.Write([]byte("[]"))
			}
		case strings.HasSuffix(r.URL.Path, "agent/request"):
			w.Header().Set("X-Inverting-Proxy-Request-Start-Time", time.Now().Format(time.RFC3339Nano))
			mu.Lock()
			proto := "HTTP/1.1"
			if c := cases[id]; c != nil && c.Proto != "" {
				proto = c.Proto
			}
			method := "GET"
			if c := cases[id]; c != nil && c.Method != "" {
				method = c.Method
			}
			mu.Unlock()
			if method == "GET" {
				fmt.Fprintf(w, "GET /c05/%s %s\r\nHost: verif.example\r\nAccept: */*\r\n\r\n", id, proto)
			} else {
				fmt.Fprintf(w, "%s /c05/%s %s\r\nHost: verif.example\r\nAccept: */*\r\nContent-Type: application/json\r\nContent-Length: 15\r\n\r\n{\"stream\":true}", method, id, proto)
			}
		case strings.HasSuffix(r.URL.Path, "agent/response"):
			mu.Lock()
			ch, o := observed[id], obs[id]
			mu.Unlock()
			br := bufio.NewReader(r.Body)
			// the uploaded body is a serialised response: skip its header, then de-chunk
			chunked := false
			for {
				line, err := br.ReadString('\n')
				if err != nil || line == "\r\n" {
					break
				}
				if l := strings.ToLower(line); strings.HasPrefix(l, "transfer-encoding:") && strings.Contains(l, "chunked") {
					chunked = true
				}
			}
			var cr io.Reader = br
			if chunked {
				cr = httputil.NewChunkedReader(br)
			}
			buf := make([]byte, 64*1024)
			total := 0
			for {
				n, err := cr.Read(buf)
				total += n
				if n > 0 && ch != nil {
					select {
					case ch <- total:
					default:
						// drop a stale notification, keep the newest
						select {
						case <-ch:
						default:
						}
						ch <- total
					}
				}
				if err != nil {
					break
				}
			}
			io.Copy(io.Discard, r.Body)
			if o != nil {
				mu.Lock()
				o.Total = total
				o.Uploads++
				mu.Unlock()
			}
			w.WriteHeader(200)
		}
	}))
	defer proxySrv.Close()

	// a fake GCE metadata server, so that the VM-identity transport is in place
	md := httptest.NewServer(http.HandlerFunc(func(w http.ResponseWriter, r *http.Request) {
		w.Header().Set("Metadata-Flavor", "Google")
		w.Write([]byte("verif-vm-identity-token"))
	}))
	defer md.Close()
	os.Setenv("GCE_METADATA_HOST", strings.TrimPrefix(md.URL, "http://"))
	*proxy = proxySrv.URL + "/"
	*host = strings.TrimPrefix(backend.URL, "http://")
	*forwardUserID, *stripCredentials = false, false
	sessionLRU = nil
	n := 18
	if verifThorough() {
		n = 300
	}
	// the same lock-step handler behind an h2c server, for the agent's --force-http2 mode
	backendH2 := httptest.NewServer(h2c.NewHandler(backend.Config.Handler, &http2.Server{}))
	defer backendH2.Close()
	for _, config := range []string{"plain", "shim", "banner", "h2c"} {
		shimP, inject := "", false
		*injectBanner = ""
		switch config {
		case "shim":
			shimP, inject = "verifshim", true
		case "banner":
			*injectBanner = "<b>banner</b>"
		}
		*host = strings.TrimPrefix(backend.URL, "http://")
		if config == "h2c" {
			*host = strings.TrimPrefix(backendH2.URL, "http://")
		}
		*shimPath, *shimWebsockets, *forceHTTP2 = shimP, inject, config == "h2c" // the flags, as main() has them
		hp, err := hostProxy(context.Background(), *host, shimP, inject, config == "h2c")
		if err != nil {
			t.Fatal(err)
		}
		ctx, cancel := context.WithCancel(context.Background())
		// the proxy-facing client as main() builds it on a GCE VM: every request passes through the VM-identity transport
		client := &http.Client{Timeout: 120 * time.Second, Transport: utils.RoundTripperWithVMIdentity(ctx, http.DefaultTransport, *proxy, false)}
		loopDone := make(chan struct{})
		go func() { pollForNewRequests(ctx, client, hp, "verif-backend"); close(loopDone) }()
		var ids []string
		cnt := n
		if config != "plain" {
			cnt = n / 3
		}
		for i := 0; i < cnt; i++ {
			c := &verifC05Case{ID: fmt.Sprintf("%s-%d", config, i), Pause: []int{0, 0, 5, 40, 150}[rng.intn(5)], HTML: rng.intn(3) == 0, Config: config, CL: i%3 == 1,
				Proto: []string{"HTTP/1.1", "HTTP/1.1", "HTTP/2.0", "HTTP/1.1", "HTTP/1.0"}[i%5]}
			nc := []int{1, 2, 3, 10, 40}[rng.intn(5)]
			if i%9 == 0 {
				nc = 120
			}
			for k := 0; k < nc; k++ {
				c.Chunks = append(c.Chunks, []int{1, 1, 2, 100, 1024, 4095, 4096, 4097, 32768, 70000, 1 << 20}[rng.intn(11)])
			}
			if i == 0 {
				c.Chunks = []int{1, 1, 1, 1, 1}
			}
			// streamed responses to requests of every method (a POST that is answered with an event stream)
			c.Method = []string{"", "POST", "", "PUT", "DELETE", "", "PATCH"}[(i+2)%7]
			c.Early = i%4 == 3
			c.Trail = i%5 == 2 && !c.CL
			if config == "plain" || config == "h2c" {
				// streamed responses of every status class (an event stream may well be an error page that keeps growing)
				c.Status = []int{200, 200, 200, 500, 206, 503, 404}[i%7]
			}
			if config == "plain" && i == 2 {
				// a response larger than any plausible cap on an upload (34 MiB in 1 MiB chunks)
				c.Chunks, c.Pause, c.CL = nil, 0, false
				for k := 0; k < 34; k++ {
					c.Chunks = append(c.Chunks, 1<<20)
				}
			}
			if config == "h2c" && i == 1 {
				// a stream that outlives any plausible dial / handshake deadline left on the backend connection
				c.Chunks, c.Pause, c.CL = []int{100, 100, 100, 100}, 3600, false
			}
			mu.Lock()
			cases[c.ID] = c
			observed[c.ID] = make(chan int, 1)
			obs[c.ID] = &verifC05Obs{}
			mu.Unlock()
			ids = append(ids, c.ID)
		}
		// a handful at a time
		for i := 0; i < len(ids); i += 6 {
			j := i + 6
			if j > len(ids) {
				j = len(ids)
			}
			pendingLists <- ids[i:j]
			deadline := time.Now().Add(120 * time.Second)
			for time.Now().Before(deadline) {
				done := true
				mu.Lock()
				for _, id := range ids[i:j] {
					o := obs[id]
					if len(o.Delivered) < len(cases[id].Chunks) && !(len(o.Delivered) > 0 && !o.Delivered[len(o.Delivered)-1]) {
						done = false
					}
					// the upload itself ends a moment after its last chunk was seen
					if len(o.Delivered) >= len(cases[id].Chunks) && o.Uploads == 0 {
						done = false
					}
				}
				mu.Unlock()
				if done {
					break
				}
				time.Sleep(20 * time.Millisecond)
			}
		}
		if config == "plain" {
			// many responses open at once: each is held after its first chunk until all of them have had theirs relayed
			var many []string
			for i := 0; i < verifC05Many; i++ {
				c := &verifC05Case{ID: fmt.Sprintf("plain-many-%d", i), Chunks: []int{10, 10}, Config: config, Proto: "HTTP/1.1", Many: true}
				mu.Lock()
				cases[c.ID] = c
				observed[c.ID] = make(chan int, 1)
				obs[c.ID] = &verifC05Obs{}
				mu.Unlock()
				many = append(many, c.ID)
			}
			pendingLists <- many
			deadline := time.Now().Add(60 * time.Second)
			for time.Now().Before(deadline) {
				done := true
				mu.Lock()
				for _, id := range many {
					o := obs[id]
					if !(len(o.Delivered) >= 2 && o.Uploads > 0) && !(len(o.Delivered) > 0 && !o.Delivered[len(o.Delivered)-1]) {
						done = false
					}
				}
				mu.Unlock()
				if done {
					break
				}
				select {
				case <-manyAll:
					time.Sleep(20 * time.Millisecond)
				case <-time.After(9 * time.Second):
					deadline = time.Now() // the barrier was not reached: the handlers have given up
				}
			}
			ids = append(ids, many...)
		}
		cancel()
		// wait for this configuration's poll loop to end (its list call in flight returns within 2 s): otherwise that call
		// would receive the next configuration's first batch and serve it through this configuration's handler chain
		select {
		case <-loopDone:
		case <-time.After(10 * time.Second):
		}
		mu.Lock()
		for _, id := range ids {
			out.emit(map[string]interface{}{"kind": "stream", "case": cases[id], "obs": obs[id]})
		}
		mu.Unlock()
	}
	*injectBanner = ""
}
