//go:build verif

package main

import (
	"bufio"
	"bytes"
	"context"
	"crypto/sha256"
	"encoding/hex"
	"fmt"
	"io"
	"net"
	"net/http"
	"os"
	"os/exec"
	"regexp"
	"strings"
	"sync"
	"time"
)

// ---- the real stand-alone proxy (binary built from /repo/server by the check driver) ----

type verifProxyProc struct {
	cmd  *exec.Cmd
	addr string
	log  *bytes.Buffer
	mu   sync.Mutex
}

func startVerifProxy() (*verifProxyProc, error) {
	bin := os.Getenv("VERIF_SERVER_BIN")
	if bin == "" {
		return nil, fmt.Errorf("VERIF_SERVER_BIN not set")
	}
	cmd := exec.Command(bin, "--port", "0")
	stderr, err := cmd.StderrPipe()
	if err != nil {
		return nil, err
	}
	p := &verifProxyProc{cmd: cmd, log: &bytes.Buffer{}}
	if err := cmd.Start(); err != nil {
		return nil, err
	}
	re := regexp.MustCompile(`Listening on \[::\]:(\d+)`)
	ready := make(chan string, 1)
	go func() {
		sc := bufio.NewScanner(stderr)
		sc.Buffer(make([]byte, 1<<20), 1<<20)
		sent := false
		for sc.Scan() {
			line := sc.Text()
			p.mu.Lock()
			if p.log.Len() < 1<<20 {
				p.log.WriteString(line + "\n")
			}
			p.mu.Unlock()
			if !sent {
				if m := re.FindStringSubmatch(line); m != nil {
					ready <- "127.0.0.1:" + m[1]
					sent = true
				}
			}
		}
	}()
	select {
	case a := <-ready:
		p.addr = a
		return p, nil
	case <-time.After(10 * time.Second):
		cmd.Process.Kill()
		return nil, fmt.Errorf("proxy binary did not start listening")
	}
}

func (p *verifProxyProc) stop() {
	p.cmd.Process.Kill()
	p.cmd.Wait()
}

func (p *verifProxyProc) raceReports() string {
	p.mu.Lock()
	defer p.mu.Unlock()
	s := p.log.String()
	if i := strings.Index(s, "WARNING: DATA RACE"); i >= 0 {
		return s[i:]
	}
	return ""
}

// ---- the agent, in process: the real poll loop and handler chain against the real proxy ----

func startVerifAgent(proxyAddr string, handler http.Handler) (stop func()) {
	*proxy = "http://" + proxyAddr + "/"
	ctx, cancel := context.WithCancel(context.Background())
	tr := &http.Transport{MaxIdleConnsPerHost: 64}
	client := &http.Client{Transport: tr, Timeout: 60 * time.Second}
	done := make(chan struct{})
	go func() { pollForNewRequests(ctx, client, handler, "verif-backend"); close(done) }()
	return func() {
		cancel()
		tr.CloseIdleConnections()
		// the list call in flight is a 30 s long poll without a context: do not wait for it
		select {
		case <-done:
		case <-time.After(100 * time.Millisecond):
		}
	}
}

// ---- raw client ----

type verifRawResp struct {
	Status   int                 `json:"status"`
	Proto    string              `json:"proto"`
	Header   map[string][]string `json:"header"`
	Trailer  map[string][]string `json:"trailer"`
	BodyLen  int                 `json:"body_len"`
	BodyHash string              `json:"body_hash"`
	Interim  []int               `json:"interim,omitempty"`
	Err      string              `json:"err,omitempty"`
}

func verifHash(b []byte) string {
	h := sha256.Sum256(b)
	return hex.EncodeToString(h[:8])
}

// verifRawRoundTrip sends the exact bytes and parses whatever comes back.
func verifRawRoundTrip(addr string, raw []byte, method string, timeout time.Duration) verifRawResp {
	return verifRawRoundTripPaused(addr, raw, method, timeout, 0)
}

// verifRawRoundTripPaused: the same, with a pause in the middle of sending (a client on a slow link)
func verifRawRoundTripPaused(addr string, raw []byte, method string, timeout, pause time.Duration) verifRawResp {
	var out verifRawResp
	c, err := net.DialTimeout("tcp", addr, 5*time.Second)
	if err != nil {
		out.Err = "dial: " + err.Error()
		return out
	}
	defer c.Close()
	c.SetDeadline(time.Now().Add(timeout))
	go func() {
		// written from a goroutine so that an early answer cannot dead-lock a large body
		if pause > 0 {
			c.Write(raw[:len(raw)/2])
			time.Sleep(pause)
			c.Write(raw[len(raw)/2:])
			return
		}
		c.Write(raw)
	}()
	br := bufio.NewReader(c)
	for {
		resp, err := http.ReadResponse(br, &http.Request{Method: method})
		if err != nil {
			out.Err = "read: " + err.Error()
			return out
		}
		if resp.StatusCode >= 100 && resp.StatusCode < 200 {
			out.Interim = append(out.Interim, resp.StatusCode)
			continue
		}
		body, rerr := io.ReadAll(resp.Body)
		if rerr != nil {
			out.Err = "body: " + rerr.Error()
		}
		out.Status, out.Proto, out.Header, out.Trailer = resp.StatusCode, resp.Proto, resp.Header, resp.Trailer
		out.BodyLen, out.BodyHash = len(body), verifHash(body)
		return out
	}
}

func verifFiller(seed string, n int) []byte {
	var b bytes.Buffer
	h := sha256.Sum256([]byte(seed))
	for b.Len() < n {
		b.WriteString(hex.EncodeToString(h[:]))
		h = sha256.Sum256(h[:])
	}
	return b.Bytes()[:n]
}
