//go:build verif

package websockets

import (
	"bytes"
	"context"
	"errors"
	"fmt"
	"io"
	"net"
	"net/http"
	"net/http/httptest"
	"net/url"
	"strings"
	"sync"
	"testing"
	"time"

	"github.com/google/inverting-proxy/agent/metrics"
	"github.com/gorilla/websocket"
)

// TestVerifC13: every URL syntax class (and arbitrary bytes) as the body of a shim
// open request; the network dial function of the websocket dialer records every
// address the agent tries to connect to.  Also: routing of paths outside the prefix.
func TestVerifC13(t *testing.T) {
	out := verifOpenOut(t)
	defer out.close()
	rng := &verifRng{s: verifSeed()}
	var mu sync.Mutex
	var dialed []string
	old := websocket.DefaultDialer
	websocket.DefaultDialer = &websocket.Dialer{NetDialContext: func(ctx context.Context, network, addr string) (net.Conn, error) {
		mu.Lock()
		dialed = append(dialed, addr)
		mu.Unlock()
		return nil, errors.New("verif: dial recorded, not performed")
	}}
	defer func() { websocket.DefaultDialer = old }()
	const backend = "backend.verif:1234"
	var wrappedSeen []string
	var wrappedHdr map[string][]string
	var wrappedBody int64 = -1
	var wrappedBodyErr string
	wrapped := http.HandlerFunc(func(w http.ResponseWriter, r *http.Request) {
		if r.URL.Path == "/events/stream" {
			// a response that is produced over time (server-sent events): two pieces 1.5 s apart, each flushed
			fl, canFlush := w.(http.Flusher)
			w.Header().Set("Content-Type", "text/event-stream")
			w.Header().Set("X-Verif-Can-Flush", fmt.Sprint(canFlush))
			w.WriteHeader(200)
			w.Write([]byte("data: first\n\n"))
			if canFlush {
				fl.Flush()
			}
			time.Sleep(1500 * time.Millisecond)
			w.Write([]byte("data: second\n\n"))
			return
		}
		n, err := io.Copy(io.Discard, r.Body)
		mu.Lock()
		wrappedSeen = append(wrappedSeen, r.Method+" "+r.URL.RequestURI())
		wrappedHdr = map[string][]string{}
		for _, k := range []string{"Accept", "Accept-Encoding", "Accept-Language", "Cookie", "X-Custom", "Range", "If-None-Match"} {
			if v := r.Header.Values(k); len(v) > 0 {
				wrappedHdr[k] = v
			}
		}
		wrappedBody = n
		wrappedBodyErr = ""
		if err != nil {
			wrappedBodyErr = err.Error()
		}
		mu.Unlock()
		w.WriteHeader(299)
	})
	ident := func(h http.Handler, _ *metrics.MetricHandler) http.Handler { return h }
	h, err := Proxy(context.Background(), wrapped, backend, "verifshim", false, false, ident, nil)
	if err != nil {
		t.Fatal(err)
	}
	bodies := []string{
		"ws://backend.verif:1234/socket?x=1", "ws://evil.example/x", "wss://evil.example:443/x?y=2#frag", "//evil.example/p", "/just/a/path?q=1", "", "?only=query",
		"x:y", "mailto:a@b", "ws:opaque-part", "a:b:c", "urn:uuid:1234", "x:y:z?q=1", "a:b:c:d", "x:7/ws", "ws:7", "x:.evil.example/ws", "x::8081/ws", "x:@evil.example", "x:y#frag", "x:%2F%2Fevil.example/", "relative/path", "?only=query", "#frag", "javascript:alert(1)", "http:relative/path", "ws://u:p@evil.example/x", "ws://user@evil.example/x",
		"ws://[::1]:80/x", "ws://[fe80::1%25eth0]/x", "ws://evil.example:0/x", "ws://evil.example:65536/x", "ws://evil.example:/x", "ws://evil.example/a%2Fb/c%20d?z=%26",
		"ws://evil.example/../../etc", "ws://evil.example", "ws://evil.example?x", "ws://evil.example#f", "WS://EVIL.EXAMPLE/X", "ws://evil.example/x y", "ws:///nohost",
		"%zz", "ws://evil.example/%zz", "http://[::1", "\x00\x01\x02", "ws://ev il/x", "ws://evil.example/\r\nHost: x", strings.Repeat("a", 5000), "ws://" + strings.Repeat("h", 300) + "/x",
		"ws://user:pw@front/ws?email=bob@evil.example:81/ws", "wss://user@front/users/@evil.example:81/ws", "ws://u:p%40w@front/ws", "ws://u:p@front/a@b", "ws://front/path@evil.example:81/x", "ws://front/?q=@evil.example:81",
		"1x://evil/x", "://evil/x", "ws:/one/slash", "ws:////four", "file:///etc/passwd", "ws://@evil.example/x", "ws://:@evil.example/x", "ws://evil.example\\@backend.verif/x",
	}
	n := 300
	if verifThorough() {
		n = 100000
	}
	for i := 0; i < n; i++ {
		l := rng.intn(24)
		b := make([]byte, l)
		alphabet := []byte("ws:/@?#%[]. \\abcXYZ019-_~!$&'()*+,;=\x00\xff\n")
		for j := range b {
			if rng.intn(5) == 0 {
				b[j] = byte(rng.next())
			} else {
				b[j] = alphabet[rng.intn(len(alphabet))]
			}
		}
		bodies = append(bodies, string(b))
	}
	for _, body := range bodies {
		mu.Lock()
		dialed = nil
		mu.Unlock()
		req := httptest.NewRequest("POST", "http://agent.local/verifshim/open", strings.NewReader(body))
		rec := httptest.NewRecorder()
		h.ServeHTTP(rec, req)
		mu.Lock()
		d := append([]string(nil), dialed...)
		mu.Unlock()
		r := map[string]interface{}{"kind": "open", "body": []byte(body), "status": rec.Code, "dialed": d}
		if u, err := url.Parse(body); err == nil {
			r["parsed"] = map[string]interface{}{"scheme": u.Scheme, "opaque": u.Opaque, "has_user": u.User != nil, "host": u.Host, "path": u.EscapedPath(), "force_query": u.ForceQuery, "raw_query": u.RawQuery, "fragment": u.EscapedFragment()}
		}
		out.emit(r)
	}
	// routing of other paths
	for _, method := range []string{"GET", "POST", "PUT", "PATCH", "DELETE", "HEAD", "OPTIONS"} {
		for _, p := range []string{"/", "/a/b", "/a//b", "/a/../b", "/a/./b", "//double", "/verifshimx/y", "/verifshim", "/x/verifshim/open", "/a%2F%2Fb", "/a/b/", "/a/b//", "/api/contents/dir/", "/api/contents/a%2Fb/", "/a%2Fb"} {
			mu.Lock()
			wrappedSeen = nil
			mu.Unlock()
			req := httptest.NewRequest(method, "http://agent.local"+p+"?q=1", nil)
			// what a browser sends with a page load or a fetch: the normal path gets it as it is
			sent := map[string][]string{"Accept": {[]string{"text/html,application/xhtml+xml,*/*;q=0.8", "application/json", "*/*"}[len(p)%3]}, "Accept-Encoding": {[]string{"gzip, deflate, br", "identity", "br", "gzip"}[(len(p)+len(method))%4]},
				"Accept-Language": {"de,en;q=0.7"}, "Cookie": {"a=1; b=2"}, "X-Custom": {"one", "two"}, "If-None-Match": {"\"v1\""}}
			for k, vs := range sent {
				for _, v := range vs {
					req.Header.Add(k, v)
				}
			}
			rec := httptest.NewRecorder()
			mu.Lock()
			wrappedHdr = nil
			mu.Unlock()
			h.ServeHTTP(rec, req)
			mu.Lock()
			ws := append([]string(nil), wrappedSeen...)
			wh := wrappedHdr
			mu.Unlock()
			out.emit(map[string]interface{}{"kind": "route", "method": method, "path": p, "status": rec.Code, "location": rec.Header().Get("Location"), "wrapped_saw": ws, "sent_header": sent, "wrapped_saw_header": wh})
		}
	}
	// a streamed response on a path outside the shim prefix, over real HTTP: the first piece reaches the client when it is
	// produced, not when the handler returns
	{
		srv := httptest.NewServer(h)
		start := time.Now()
		row := map[string]interface{}{"kind": "route-stream"}
		resp, err := http.Get(srv.URL + "/events/stream")
		if err != nil {
			row["err"] = err.Error()
		} else {
			row["status"], row["handler_could_flush"] = resp.StatusCode, resp.Header.Get("X-Verif-Can-Flush")
			first := make([]byte, 13)
			if _, err := io.ReadFull(resp.Body, first); err == nil {
				row["first_piece_after_ms"] = time.Since(start).Milliseconds()
			}
			rest, _ := io.ReadAll(resp.Body)
			resp.Body.Close()
			row["all_after_ms"], row["body"] = time.Since(start).Milliseconds(), string(first)+string(rest)
		}
		srv.Close()
		out.emit(row)
	}
	// request bodies on paths outside the shim prefix: any size, with and without a declared length
	for _, size := range []int{0, 1, 1000, 1 << 20, 1<<20 + 1, 3 << 20} {
		for _, declared := range []bool{true, false} {
			mu.Lock()
			wrappedBody, wrappedBodyErr = -1, ""
			mu.Unlock()
			var body io.Reader = bytes.NewReader(bytes.Repeat([]byte{'x'}, size))
			if !declared {
				body = io.MultiReader(body) // hides the length: ContentLength -1, as for a chunked upload
			}
			req := httptest.NewRequest("POST", "http://agent.local/api/upload?q=1", body)
			rec := httptest.NewRecorder()
			h.ServeHTTP(rec, req)
			mu.Lock()
			out.emit(map[string]interface{}{"kind": "route-body", "size": size, "declared_length": declared, "status": rec.Code, "wrapped_read": wrappedBody, "wrapped_err": wrappedBodyErr})
			mu.Unlock()
		}
	}
}

// TestVerifC13Redirect: a backend that answers the websocket handshake with a redirect (or another
// non-101 reply) pointing somewhere else.  Every address the agent tries to connect to is recorded;
// only the configured backend is really dialled.
func TestVerifC13Redirect(t *testing.T) {
	out := verifOpenOut(t)
	defer out.close()
	var mu sync.Mutex
	var dialed []string
	var backendAddr string
	old := websocket.DefaultDialer
	websocket.DefaultDialer = &websocket.Dialer{NetDialContext: func(ctx context.Context, network, addr string) (net.Conn, error) {
		mu.Lock()
		dialed = append(dialed, addr)
		ok := addr == backendAddr
		mu.Unlock()
		if !ok {
			return nil, errors.New("verif: foreign dial recorded, not performed")
		}
		return (&net.Dialer{}).DialContext(ctx, network, addr)
	}}
	defer func() { websocket.DefaultDialer = old }()
	type reply struct {
		Status   int    `json:"status"`
		Location string `json:"location"`
	}
	var cur reply
	be := httptest.NewServer(http.HandlerFunc(func(w http.ResponseWriter, r *http.Request) {
		mu.Lock()
		c := cur
		mu.Unlock()
		if c.Location != "" {
			w.Header().Set("Location", c.Location)
		}
		w.Header().Set("Refresh", "0; url=http://evil.example:81/ws")
		w.Header().Set("Content-Location", "http://evil.example:81/ws")
		w.WriteHeader(c.Status)
	}))
	defer be.Close()
	backendAddr = strings.TrimPrefix(be.URL, "http://")
	wrapped := http.HandlerFunc(func(w http.ResponseWriter, r *http.Request) { w.WriteHeader(299) })
	ident := func(h http.Handler, _ *metrics.MetricHandler) http.Handler { return h }
	h, err := Proxy(context.Background(), wrapped, backendAddr, "verifshim", false, false, ident, nil)
	if err != nil {
		t.Fatal(err)
	}
	for _, st := range []int{301, 302, 303, 307, 308, 300, 200, 401, 407, 426, 503} {
		for _, loc := range []string{"http://evil.example:81/ws", "ws://evil.example:81/ws", "//evil.example:81/ws", "https://evil.example/ws", "/same-host/ws", "wss://evil.example/ws", "http://" + backendAddr + "@evil.example:81/ws", ""} {
			for _, body := range []string{"ws://front.example/ws", "ws://front.example/login?next=http%3A%2F%2Fevil.example%3A81%2Fws", "ws://front.example//evil.example:81"} {
				mu.Lock()
				cur = reply{Status: st, Location: loc}
				dialed = nil
				mu.Unlock()
				req := httptest.NewRequest("POST", "http://agent.local/verifshim/open", strings.NewReader(body))
				rec := httptest.NewRecorder()
				h.ServeHTTP(rec, req)
				mu.Lock()
				d := append([]string{}, dialed...)
				mu.Unlock()
				out.emit(map[string]interface{}{"kind": "redirect", "backend": backendAddr, "backend_status": st, "backend_location": loc, "open_body": body, "status": rec.Code, "dialed": d})
			}
		}
	}
}

// TestVerifC13Host: what the URL in the body of an open request contributes to the handshake the backend receives.  With
// and without --rewrite-websocket-host, for bodies naming foreign authorities: the backend records the Host, the request
// URI and the Origin-like headers of the websocket handshake.  The body may contribute its path and query, nothing else.
func TestVerifC13Host(t *testing.T) {
	out := verifOpenOut(t)
	defer out.close()
	type seen struct {
		Host string `json:"host"`
		URI  string `json:"uri"`
	}
	var mu sync.Mutex
	var got []seen
	up := websocket.Upgrader{}
	be := httptest.NewServer(http.HandlerFunc(func(w http.ResponseWriter, r *http.Request) {
		mu.Lock()
		got = append(got, seen{Host: r.Host, URI: r.URL.RequestURI()})
		mu.Unlock()
		c, err := up.Upgrade(w, r, nil)
		if err == nil {
			c.Close()
		}
	}))
	defer be.Close()
	backendAddr := strings.TrimPrefix(be.URL, "http://")
	wrapped := http.HandlerFunc(func(w http.ResponseWriter, r *http.Request) { w.WriteHeader(299) })
	ident := func(h http.Handler, _ *metrics.MetricHandler) http.Handler { return h }
	bodies := []string{"ws://front.example/ws?x=1", "ws://evil.example/ws?x=1", "wss://evil.example:8443/ws", "//evil.example/ws", "/only/a/path?q=2", "ws://[2001:db8::1]:8443/ws", "ws://front.example:81/ws",
		"ws://EVIL.example/ws", "http://evil.example/ws", "ws://evil.example", "x:y", ""}
	for _, rewrite := range []bool{false, true} {
		h, err := Proxy(context.Background(), wrapped, backendAddr, "verifshim", rewrite, false, ident, nil)
		if err != nil {
			t.Fatal(err)
		}
		for _, body := range bodies {
			mu.Lock()
			got = nil
			mu.Unlock()
			req := httptest.NewRequest("POST", "http://front.example/verifshim/open", strings.NewReader(body))
			rec := httptest.NewRecorder()
			h.ServeHTTP(rec, req)
			mu.Lock()
			g := append([]seen{}, got...)
			mu.Unlock()
			r := map[string]interface{}{"kind": "host", "rewrite_host": rewrite, "open_body": body, "request_host": "front.example", "backend": backendAddr, "status": rec.Code, "handshakes": g}
			if u, err := url.Parse(body); err == nil {
				r["body_uri"] = u.RequestURI()
				r["body_opaque"] = u.Opaque != ""
			}
			out.emit(r)
		}
	}
}
