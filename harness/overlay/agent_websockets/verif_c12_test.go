//go:build verif

package websockets

import (
	"encoding/json"
	"fmt"
	"net"
	"net/http"
	"net/http/httptest"
	"strings"
	"sync"
	"testing"
	"time"

	"github.com/gorilla/websocket"
)

// one live session under test
type verifSess struct {
	id string
	bc *verifWSConn
}

var verifOpenMu sync.Mutex

// open + pick-up of the backend side of the new connection are one critical section, so that
// concurrently running sequences cannot get each other's backend connection
func verifOpenSess(shim *verifShim, be *verifWSBackend) (*verifSess, verifCallResult) {
	verifOpenMu.Lock()
	defer verifOpenMu.Unlock()
	r, id := shim.open("ws://ignored/ws", "1")
	if r.Status != 200 {
		return nil, r
	}
	select {
	case bc := <-be.newC:
		return &verifSess{id: id, bc: bc}, r
	case <-time.After(5 * time.Second):
		return nil, r
	}
}

func verifDataBody(id string, n int) []byte {
	var post []map[string]interface{}
	for i := 0; i < n; i++ {
		post = append(post, map[string]interface{}{"id": id, "msg": fmt.Sprintf("m%d", i)})
	}
	b, _ := json.Marshal(post)
	return b
}

// TestVerifC12Seq: every sequence of shim calls up to a bound, one call at a time.
func TestVerifC12Seq(t *testing.T) {
	out := verifOpenOut(t)
	defer out.close()
	be := newVerifWSBackend()
	defer be.srv.Close()
	shim := newVerifShim(be.host(), false)
	// alphabet (on the single session opened at the start of every sequence, or on an unknown id)
	ops := []string{"data", "data-unknown", "data-malformed", "data-badmsg", "poll-unknown", "poll-malformed", "close", "close-unknown", "close-malformed", "backend-send", "poll", "backend-close", "open-malformed", "open"}
	maxLen := 3
	if verifThorough() {
		maxLen = 4
	}
	var seqs [][]int
	var gen func(prefix []int)
	gen = func(prefix []int) {
		if len(prefix) > 0 {
			seqs = append(seqs, append([]int(nil), prefix...))
		}
		if len(prefix) == maxLen {
			return
		}
		for i := range ops {
			gen(append(prefix, i))
		}
	}
	gen(nil)
	var wg sync.WaitGroup
	sem := make(chan struct{}, 16)
	for _, seq := range seqs {
		wg.Add(1)
		sem <- struct{}{}
		go func(seq []int) {
			defer wg.Done()
			defer func() { <-sem }()
			s, r0 := verifOpenSess(shim, be)
			if s == nil {
				out.emit(map[string]interface{}{"kind": "seq", "ops": seq, "error": "open failed", "status": r0.Status})
				return
			}
			var names []string
			var statuses []int
			var notes []string
			queued := 0 // messages the backend has sent and no poll has taken yet
			sessLive, backendOpen := true, true
			skipped := false
			for _, oi := range seq {
				op := ops[oi]
				names = append(names, op)
				var r verifCallResult
				switch op {
				case "data":
					r = shim.call("data", verifDataBody(s.id, 2), nil, 5*time.Second)
				case "data-unknown":
					r = shim.call("data", verifDataBody("no-such-session", 1), nil, 5*time.Second)
				case "data-malformed":
					r = shim.call("data", []byte(`{"not":"an array"`), nil, 5*time.Second)
				case "data-badmsg":
					b, _ := json.Marshal([]map[string]interface{}{{"id": s.id, "msg": map[string]int{"x": 1}}})
					r = shim.call("data", b, nil, 5*time.Second)
				case "poll-unknown":
					r = shim.call("poll", verifSessionBody("no-such-session"), nil, 5*time.Second)
				case "poll-malformed":
					r = shim.call("poll", []byte(`[[[`), nil, 5*time.Second)
				case "close":
					r = shim.call("close", verifSessionBody(s.id), nil, 5*time.Second)
					if r.Status == 200 {
						sessLive, backendOpen = false, false
					}
				case "close-unknown":
					r = shim.call("close", verifSessionBody("no-such-session"), nil, 5*time.Second)
				case "close-malformed":
					r = shim.call("close", []byte(`nope`), nil, 5*time.Second)
				case "open-malformed":
					r = shim.call("open", []byte("%zz"), nil, 5*time.Second)
				case "open":
					s2, r2 := verifOpenSess(shim, be)
					r = r2
					if s2 != nil {
						shim.call("close", verifSessionBody(s2.id), nil, 5*time.Second)
					}
				case "backend-send":
					if err := s.bc.c.WriteMessage(websocket.TextMessage, []byte("from-backend")); err == nil {
						queued++
					}
					time.Sleep(15 * time.Millisecond)
					r = verifCallResult{Status: -1}
				case "backend-close":
					s.bc.c.Close()
					backendOpen = false
					time.Sleep(40 * time.Millisecond)
					r = verifCallResult{Status: -1}
				case "poll":
					if sessLive && backendOpen && queued == 0 {
						// this poll would sit in the 20 s time-out (TestVerifC12Poll408 covers that path)
						skipped = true
						r = verifCallResult{Status: -4}
						break
					}
					// only poll when an answer is due at once (a message is queued or the session is over);
					// the 20 s time-out path has its own test
					r = shim.call("poll", verifSessionBody(s.id), nil, 25*time.Second)
					if r.Status == 200 {
						queued = 0
						if ms, err := verifDecodePoll(r.Body, 1); err == nil {
							notes = append(notes, fmt.Sprintf("poll:%d", len(ms)))
						}
					} else if r.Status == 400 {
						sessLive = false
					}
				}
				st := r.Status
				if r.Panic != "" {
					st = -2
					notes = append(notes, "panic: "+r.Panic)
				}
				if r.Hung {
					st = -3
				}
				statuses = append(statuses, st)
			}
			sawClose := false
			if !sessLive || !backendOpen {
				select {
				case <-s.bc.done:
				case <-time.After(2 * time.Second):
				}
			}
			s.bc.mu.Lock()
			sawClose = s.bc.closed
			s.bc.mu.Unlock()
			out.emit(map[string]interface{}{"kind": "seq", "ops": names, "statuses": statuses, "notes": notes, "backend_saw_end": sawClose, "skipped": skipped})
			shim.call("close", verifSessionBody(s.id), nil, 5*time.Second)
		}(seq)
	}
	wg.Wait()
}

// TestVerifC12Poll408: a poll on an idle session answers 408 after the poll timeout.
func TestVerifC12Poll408(t *testing.T) {
	out := verifOpenOut(t)
	defer out.close()
	be := newVerifWSBackend()
	defer be.srv.Close()
	shim := newVerifShim(be.host(), false)
	s, _ := verifOpenSess(shim, be)
	if s == nil {
		t.Fatal("open failed")
	}
	start := time.Now()
	r := shim.call("poll", verifSessionBody(s.id), nil, 40*time.Second)
	out.emit(map[string]interface{}{"kind": "poll408", "status": r.Status, "hung": r.Hung, "seconds": time.Since(start).Seconds()})
	shim.call("close", verifSessionBody(s.id), nil, 5*time.Second)
}

// TestVerifC12Conc: calls racing on one session.
func TestVerifC12Conc(t *testing.T) {
	out := verifOpenOut(t)
	defer out.close()
	be := newVerifWSBackend()
	defer be.srv.Close()
	shim := newVerifShim(be.host(), false)
	reps := 150
	if verifThorough() {
		reps = 1500
	}
	type scen struct {
		name  string
		calls []string // run concurrently
		pre   string   // state set up before
	}
	scens := []scen{
		{name: "close||close", calls: []string{"close", "close"}},
		{name: "close||close||close", calls: []string{"close", "close", "close"}},
		{name: "close x8", calls: []string{"close", "close", "close", "close", "close", "close", "close", "close"}},
		{name: "data||close", calls: []string{"data", "close"}},
		{name: "data||data||close", calls: []string{"data", "data", "close"}},
		{name: "poll||close", calls: []string{"poll", "close"}, pre: "backend-send"},
		{name: "data||backend-close", calls: []string{"data", "backend-close"}},
		{name: "close-after-backend-close-with-full-queue", calls: []string{"close"}, pre: "fill-queue-then-backend-close"},
		{name: "data-after-backend-close-with-full-queue", calls: []string{"data"}, pre: "fill-queue-then-backend-close"},
		{name: "poll||poll", calls: []string{"poll", "poll"}, pre: "backend-send-2"},
	}
	for _, sc := range scens {
		counts := map[string]int{}
		var example []string
		nrep := reps
		if sc.name == "close x8" {
			nrep = reps * 6 // the window in which two closes both get hold of the connection is narrow
		}
		if sc.name == "poll||poll" {
			nrep = 2 // the poll that finds the queue empty legitimately waits for the 20 s poll time-out
		}
		for rep := 0; rep < nrep; rep++ {
			s, _ := verifOpenSess(shim, be)
			if s == nil {
				counts["open-failed"]++
				continue
			}
			switch sc.pre {
			case "backend-send":
				s.bc.c.WriteMessage(websocket.TextMessage, []byte("x"))
				time.Sleep(10 * time.Millisecond)
			case "backend-send-2":
				s.bc.c.WriteMessage(websocket.TextMessage, []byte("x"))
				s.bc.c.WriteMessage(websocket.TextMessage, []byte("y"))
				time.Sleep(10 * time.Millisecond)
			case "fill-queue-then-backend-close":
				// the backend stops reading (its connection is closed abruptly), so the writer goroutine
				// ends; client messages posted meanwhile stay in the 10-slot queue
				s.bc.c.UnderlyingConn().Close()
				time.Sleep(30 * time.Millisecond)
				for k := 0; k < 3; k++ {
					shim.call("data", verifDataBody(s.id, 6), nil, 300*time.Millisecond)
				}
			}
			var wg sync.WaitGroup
			res := make([]verifCallResult, len(sc.calls))
			start := make(chan struct{})
			for i, c := range sc.calls {
				wg.Add(1)
				go func(i int, c string) {
					defer wg.Done()
					<-start
					switch c {
					case "close":
						res[i] = shim.call("close", verifSessionBody(s.id), nil, 3*time.Second)
					case "data":
						res[i] = shim.call("data", verifDataBody(s.id, 4), nil, 3*time.Second)
					case "poll":
						res[i] = shim.call("poll", verifSessionBody(s.id), nil, 25*time.Second)
					case "backend-close":
						s.bc.c.Close()
						res[i] = verifCallResult{Status: -1}
					}
				}(i, c)
			}
			close(start)
			wg.Wait()
			key := ""
			for i, r := range res {
				st := fmt.Sprint(r.Status)
				if r.Panic != "" {
					st = "PANIC(" + r.Panic + ")"
				}
				if r.Hung {
					st = "HUNG"
				}
				key += sc.calls[i] + "=" + st + " "
			}
			counts[key]++
			if len(example) < 3 {
				example = append(example, key)
			}
			shim.call("close", verifSessionBody(s.id), nil, 500*time.Millisecond)
		}
		out.emit(map[string]interface{}{"kind": "conc", "scenario": sc.name, "reps": nrep, "outcomes": counts})
	}
}

// TestVerifC12Shapes: data posts whose `msg` has every JSON shape (the browser shim sends a string or a
// one-element array holding a base64 string).  Each is answered, and afterwards the session still
// carries a well-formed message to the backend.  A panic outside a handler (the connection's writer
// goroutine) ends this test binary: the driver reports that as a crash of the agent.
func TestVerifC12Shapes(t *testing.T) {
	out := verifOpenOut(t)
	defer out.close()
	be := newVerifWSBackend()
	defer be.srv.Close()
	shim := newVerifShim(be.host(), false)
	shapes := []string{`"text"`, `""`, `["aGk="]`, `[42]`, `[null]`, `[{"a":1}]`, `[]`, `["aGk=","aGk="]`, `["not base64 !!"]`, `[["aGk="]]`, `42`, `null`, `true`, `{"x":1}`, `[true]`, `[1.5]`, `[""]`}
	for i, shape := range shapes {
		for _, version := range []string{"", "1"} {
			r, id := shim.open("ws://ignored/ws", version)
			if r.Status != 200 {
				out.emit(map[string]interface{}{"kind": "shape", "shape": shape, "version": version, "error": fmt.Sprintf("open: %d", r.Status)})
				continue
			}
			bc := <-be.newC
			body := []byte(fmt.Sprintf(`[{"id":%q,"msg":%s}]`, id, shape))
			dr := shim.call("data", body, nil, 5*time.Second)
			time.Sleep(30 * time.Millisecond)
			// the session (and the agent) must still work
			good, _ := json.Marshal([]map[string]interface{}{{"id": id, "msg": fmt.Sprintf("after-%d", i)}})
			gr := shim.call("data", good, nil, 5*time.Second)
			delivered := false
			deadline := time.Now().Add(2 * time.Second)
			for time.Now().Before(deadline) && !delivered {
				for _, m := range bc.received() {
					if string(m.Data) == fmt.Sprintf("after-%d", i) {
						delivered = true
					}
				}
				if !delivered {
					time.Sleep(20 * time.Millisecond)
				}
			}
			cr := shim.call("close", verifSessionBody(id), nil, 5*time.Second)
			out.emit(map[string]interface{}{"kind": "shape", "shape": shape, "version": version, "status": dr.Status, "followup_status": gr.Status, "followup_delivered": delivered, "close_status": cr.Status})
		}
	}
	out.emit(map[string]interface{}{"kind": "shapes-survived"})
}

// TestVerifC12Deaf: closing a session closes the backend websocket also when the backend does not cooperate: it ignores
// close frames, or never reads at all (push-only stream), or has a backlog of unpolled messages.  "Closed" is judged at the
// backend's socket: the agent's end must be gone within 3 s of the close call.
func TestVerifC12Deaf(t *testing.T) {
	out := verifOpenOut(t)
	defer out.close()
	up := websocket.Upgrader{}
	type verdict struct {
		closedByAgent bool
		how           string
	}
	for _, mode := range []string{"cooperative", "ignores-close-frames", "push-only-never-reads", "backlog-of-unpolled-messages"} {
		closeCalled := make(chan struct{})
		verd := make(chan verdict, 1)
		srv := httptest.NewServer(http.HandlerFunc(func(w http.ResponseWriter, r *http.Request) {
			c, err := up.Upgrade(w, r, nil)
			if err != nil {
				return
			}
			defer c.Close()
			raw := c.UnderlyingConn()
			switch mode {
			case "cooperative":
				for {
					if _, _, err := c.ReadMessage(); err != nil {
						verd <- verdict{true, "read ended: " + err.Error()}
						return
					}
				}
			case "ignores-close-frames":
				c.SetCloseHandler(func(int, string) error { return nil }) // no close frame is sent back
				for {
					if _, _, err := c.ReadMessage(); err != nil {
						break
					}
				}
				// the close frame has arrived and is ignored; the socket itself must now be closed by the agent
				raw.SetReadDeadline(time.Now().Add(3 * time.Second))
				buf := make([]byte, 64)
				for {
					if _, err := raw.Read(buf); err != nil {
						ne, isNet := err.(net.Error)
						verd <- verdict{!(isNet && ne.Timeout()), "socket read: " + err.Error()}
						return
					}
				}
			default:
				// never reads; pushes a message now and then (a backlog beyond the shim's 10-slot queue in the last mode)
				n := 0
				if mode == "backlog-of-unpolled-messages" {
					for ; n < 40; n++ {
						c.WriteMessage(websocket.TextMessage, []byte(fmt.Sprintf("push-%d", n)))
					}
				}
				var deadline time.Time
				for {
					select {
					case <-closeCalled:
						if deadline.IsZero() {
							deadline = time.Now().Add(3 * time.Second)
						}
					default:
					}
					if !deadline.IsZero() && time.Now().After(deadline) {
						verd <- verdict{false, "writes still succeed 3 s after the close call"}
						return
					}
					raw.SetWriteDeadline(time.Now().Add(time.Second))
					if err := c.WriteMessage(websocket.TextMessage, []byte(fmt.Sprintf("push-%d", n))); err != nil {
						select {
						case <-closeCalled:
							ne, isNet := err.(net.Error)
							_, _ = ne, isNet
							verd <- verdict{true, "write failed: " + err.Error()}
						default:
							verd <- verdict{false, "write failed before the close call: " + err.Error()}
						}
						return
					}
					n++
					time.Sleep(100 * time.Millisecond)
				}
			}
		}))
		shim := newVerifShim(strings.TrimPrefix(srv.URL, "http://"), false)
		r, id := shim.open("ws://ignored/ws", "1")
		res := map[string]interface{}{"kind": "deaf", "backend": mode, "open_status": r.Status}
		if r.Status == 200 {
			time.Sleep(150 * time.Millisecond)
			cr := shim.call("close", verifSessionBody(id), nil, 10*time.Second)
			close(closeCalled)
			res["close_status"] = cr.Status
			select {
			case v := <-verd:
				res["backend_socket_closed"] = v.closedByAgent
				res["backend_saw"] = v.how
			case <-time.After(8 * time.Second):
				res["backend_socket_closed"] = false
				res["backend_saw"] = "no verdict within 8 s"
			}
		}
		out.emit(res)
		srv.CloseClientConnections()
		srv.Close()
	}
}

// TestVerifC12Batch: one data post whose elements name several sessions.  A message may only reach the backend of the
// session its own element names, and a post with an element naming an unknown or closed session is answered 400.
func TestVerifC12Batch(t *testing.T) {
	out := verifOpenOut(t)
	defer out.close()
	be := newVerifWSBackend()
	defer be.srv.Close()
	shim := newVerifShim(be.host(), false)
	open := func() (string, *verifWSConn) {
		r, id := shim.open("ws://ignored/ws", "1")
		if r.Status != 200 {
			return "", nil
		}
		return id, <-be.newC
	}
	idA, a := open()
	idB, b := open()
	idC, c := open()
	if a == nil || b == nil || c == nil {
		out.emit(map[string]interface{}{"kind": "batch", "error": "open failed"})
		return
	}
	shim.call("close", verifSessionBody(idC), nil, 5*time.Second)
	mk := func(pairs ...[2]string) []byte {
		var l []map[string]interface{}
		for _, p := range pairs {
			l = append(l, map[string]interface{}{"id": p[0], "msg": p[1]})
		}
		body, _ := json.Marshal(l)
		return body
	}
	cases := []struct {
		name string
		body []byte
		want int
		forA []string // messages that may (and, for 200, must) reach A, in order
		forB []string
	}{
		{"all-for-A", mk([2]string{idA, "a1"}, [2]string{idA, "a2"}), 200, []string{"a1", "a2"}, nil},
		{"A-then-B", mk([2]string{idA, "a3"}, [2]string{idB, "b1"}), 200, []string{"a3"}, []string{"b1"}},
		{"A-then-unknown", mk([2]string{idA, "a4"}, [2]string{"999", "u1"}), 400, []string{"a4"}, nil},
		{"A-then-closed", mk([2]string{idA, "a5"}, [2]string{idC, "c1"}), 400, []string{"a5"}, nil},
		{"A-then-empty-id", mk([2]string{idA, "a6"}, [2]string{"", "e1"}), 400, []string{"a6"}, nil},
		{"B-A-B", mk([2]string{idB, "b2"}, [2]string{idA, "a7"}, [2]string{idB, "b3"}), 200, []string{"a7"}, []string{"b2", "b3"}},
	}
	texts := func(c *verifWSConn, from int) []string {
		var l []string
		for _, m := range c.received()[from:] {
			l = append(l, string(m.Data))
		}
		return l
	}
	for _, cs := range cases {
		na, nb := len(a.received()), len(b.received())
		r := shim.call("data", cs.body, nil, 10*time.Second)
		time.Sleep(150 * time.Millisecond)
		out.emit(map[string]interface{}{"kind": "batch", "case": cs.name, "post": string(cs.body), "status": r.Status, "expected_status": cs.want,
			"a_received": texts(a, na), "b_received": texts(b, nb), "a_allowed": cs.forA, "b_allowed": cs.forB})
	}
}

// TestVerifC12Table: histories over several sessions, one call at a time: opens (also refused handshakes, which use an ID
// up), data posts whose elements name open, closed, unknown and other sessions, polls, closes, backends that send and hang
// up.  Statuses, session IDs, polled messages and what each backend received are compared with Websockets/ShimTable.v.
func TestVerifC12Table(t *testing.T) {
	out := verifOpenOut(t)
	defer out.close()
	rng := &verifRng{s: verifSeed()}
	nh := 12
	if verifThorough() {
		nh = 300
	}
	{
		// a shim whose backend is not there at all (connection refused): every open is a failed dial
		ln, _ := net.Listen("tcp", "127.0.0.1:0")
		dead := ln.Addr().String()
		ln.Close()
		shim := newVerifShim(dead, false)
		var ops []map[string]interface{}
		for k := 0; k < 3; k++ {
			r, _ := shim.open("ws://ignored/ws", "1")
			ops = append(ops, map[string]interface{}{"op": "open", "dial_ok": false, "status": r.Status, "why": "connection-refused", "panic": r.Panic})
		}
		out.emit(map[string]interface{}{"kind": "table", "index": -1, "ops": ops, "backend_received": map[string][]string{}})
	}
	for hi := 0; hi < nh; hi++ {
		be := newVerifWSBackend()
		shim := newVerifShim(be.host(), false)
		type sessT struct {
			id          string
			bc          *verifWSConn
			closed      bool // left the table as far as the harness knows
			backendGone bool
			queued      int
		}
		var sess []*sessT
		var ops []map[string]interface{}
		msgNo := 0
		pickID := func() (string, *sessT) {
			switch k := rng.intn(10); {
			case k == 0 || len(sess) == 0:
				return "77", nil
			default:
				s := sess[rng.intn(len(sess))]
				return s.id, s
			}
		}
		n := 10 + rng.intn(25)
		for i := 0; i < n; i++ {
			switch k := rng.intn(12); {
			case k < 2 || len(sess) == 0:
				if rng.intn(4) == 0 {
					// a dial that fails: the backend answers the upgrade request with 403, or hangs up without answering it
					why := []string{"reject-handshake", "hang-up"}[rng.intn(2)]
					r, _ := shim.open("ws://ignored/"+why, "1")
					ops = append(ops, map[string]interface{}{"op": "open", "dial_ok": false, "status": r.Status, "why": why, "panic": r.Panic})
					continue
				}
				r, id := shim.open("ws://ignored/ws", "1")
				st := &sessT{id: id}
				if r.Status == 200 {
					select {
					case st.bc = <-be.newC:
					case <-time.After(5 * time.Second):
					}
					sess = append(sess, st)
				}
				ops = append(ops, map[string]interface{}{"op": "open", "dial_ok": true, "status": r.Status, "id": id})
			case k < 6:
				ne := 1 + rng.intn(4)
				var post []map[string]interface{}
				var elems [][2]interface{}
				for e := 0; e < ne; e++ {
					id, _ := pickID()
					msgNo++
					post = append(post, map[string]interface{}{"id": id, "msg": fmt.Sprintf("m%d", msgNo)})
					elems = append(elems, [2]interface{}{id, msgNo})
				}
				body, _ := json.Marshal(post)
				r := shim.call("data", body, nil, 10*time.Second)
				time.Sleep(30 * time.Millisecond)
				ops = append(ops, map[string]interface{}{"op": "data", "elems": elems, "status": r.Status})
			case k < 8:
				id, s := pickID()
				if s != nil && !s.closed && s.queued == 0 && !s.backendGone {
					continue // would be a 20 s long poll
				}
				r := shim.call("poll", verifSessionBody(id), nil, 25*time.Second)
				o := map[string]interface{}{"op": "poll", "id": id, "status": r.Status}
				if r.Status == 200 {
					ms, _ := verifDecodePoll(r.Body, 1)
					var l []string
					for _, m := range ms {
						l = append(l, string(m.Data))
					}
					o["msgs"] = l
					if s != nil {
						s.queued = 0
					}
				} else if s != nil && r.Status == 400 {
					s.closed = true
				}
				ops = append(ops, o)
			case k < 9:
				id, s := pickID()
				r := shim.call("close", verifSessionBody(id), nil, 10*time.Second)
				if s != nil {
					s.closed = true
				}
				ops = append(ops, map[string]interface{}{"op": "close", "id": id, "status": r.Status})
			case k < 11:
				_, s := pickID()
				if s == nil || s.closed || s.backendGone || s.bc == nil || s.queued >= 8 {
					continue
				}
				msgNo++
				s.bc.c.WriteMessage(websocket.TextMessage, []byte(fmt.Sprintf("s%d", msgNo)))
				s.queued++
				time.Sleep(40 * time.Millisecond)
				ops = append(ops, map[string]interface{}{"op": "backend-send", "id": s.id, "msg": msgNo})
			default:
				_, s := pickID()
				if s == nil || s.closed || s.backendGone || s.bc == nil {
					continue
				}
				s.bc.c.UnderlyingConn().Close()
				s.backendGone = true
				time.Sleep(80 * time.Millisecond)
				ops = append(ops, map[string]interface{}{"op": "backend-close", "id": s.id})
			}
		}
		time.Sleep(100 * time.Millisecond)
		finals := map[string][]string{}
		for _, s := range sess {
			if s.bc == nil {
				continue
			}
			var l []string
			for _, m := range s.bc.received() {
				l = append(l, string(m.Data))
			}
			finals[s.id] = l
		}
		out.emit(map[string]interface{}{"kind": "table", "index": hi, "ops": ops, "backend_received": finals})
		for _, s := range sess {
			if !s.closed {
				shim.call("close", verifSessionBody(s.id), nil, 5*time.Second)
			}
		}
		be.srv.CloseClientConnections()
		be.srv.Close()
	}
}

// TestVerifC12StalledThenGone: the backend accepts the websocket and stops reading while the client keeps posting large
// messages; once every buffer on the way is full a data call waits for room (back-pressure).  Then the backend goes
// away.  The waiting call, every later data call and the close call must be answered.
func TestVerifC12StalledThenGone(t *testing.T) {
	out := verifOpenOut(t)
	defer out.close()
	up := websocket.Upgrader{}
	conns := make(chan net.Conn, 1)
	srv := httptest.NewServer(http.HandlerFunc(func(w http.ResponseWriter, r *http.Request) {
		c, err := up.Upgrade(w, r, nil)
		if err != nil {
			return
		}
		conns <- c.UnderlyingConn()
		select {} // never reads, never returns
	}))
	defer srv.CloseClientConnections()
	shim := newVerifShim(strings.TrimPrefix(srv.URL, "http://"), false)
	res := map[string]interface{}{"kind": "stalled-then-gone"}
	r, id := shim.open("ws://ignored/ws", "1")
	if r.Status != 200 {
		res["error"] = fmt.Sprintf("open: %d", r.Status)
		out.emit(res)
		return
	}
	raw := <-conns
	big := strings.Repeat("x", 512*1024)
	type callRes struct {
		status int
		hung   bool
	}
	waiting := make(chan callRes, 1)
	posted, blockedAt := 0, -1
	for k := 0; k < 64 && blockedAt < 0; k++ {
		body, _ := json.Marshal([]map[string]interface{}{{"id": id, "msg": big}})
		done := make(chan callRes, 1)
		go func() {
			cr := shim.call("data", body, map[string]string{"X-Websocket-Shim-Version": "1"}, 60*time.Second)
			done <- callRes{cr.Status, cr.Hung}
		}()
		select {
		case <-done:
			posted++
		case <-time.After(2 * time.Second):
			blockedAt = k
			go func() { waiting <- <-done }()
		}
	}
	res["posts_answered_before_the_stall"], res["stalled_at_post"] = posted, blockedAt
	if blockedAt < 0 {
		res["error"] = "no data call ever waited for room"
		out.emit(res)
		return
	}
	raw.Close() // the backend goes away
	select {
	case cr := <-waiting:
		res["waiting_call_status"] = cr.status
	case <-time.After(8 * time.Second):
		res["waiting_call_status"] = -1
	}
	var later []int
	for k := 0; k < 3; k++ {
		body, _ := json.Marshal([]map[string]interface{}{{"id": id, "msg": "after"}})
		cr := shim.call("data", body, map[string]string{"X-Websocket-Shim-Version": "1"}, 5*time.Second)
		st := cr.Status
		if cr.Hung {
			st = -1
		}
		later = append(later, st)
	}
	res["later_data_statuses"] = later
	cr := shim.call("close", verifSessionBody(id), nil, 5*time.Second)
	res["close_status"] = cr.Status
	if cr.Hung {
		res["close_status"] = -1
	}
	out.emit(res)
}
