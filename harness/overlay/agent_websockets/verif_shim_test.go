//go:build verif

package websockets

import (
	"bytes"
	"context"
	"encoding/base64"
	"encoding/json"
	"fmt"
	"io"
	"net/http"
	"net/http/httptest"
	"strings"
	"sync"
	"sync/atomic"
	"time"

	"github.com/google/inverting-proxy/agent/metrics"
	"github.com/gorilla/websocket"
)

// ---- a real websocket backend under the harness's control ----

type verifWSMsg struct {
	Type int    `json:"type"` // 1 text, 2 binary
	Data []byte `json:"data"`
}

type verifWSConn struct {
	c         *websocket.Conn
	mu        sync.Mutex
	recv      []verifWSMsg
	closed    bool // the backend saw the connection end
	closeCode int
	done      chan struct{}
}

type verifWSBackend struct {
	srv   *httptest.Server
	mu    sync.Mutex
	conns []*verifWSConn
	newC  chan *verifWSConn
}

func newVerifWSBackend() *verifWSBackend {
	b := &verifWSBackend{newC: make(chan *verifWSConn, 256)}
	up := websocket.Upgrader{ReadBufferSize: 4096, WriteBufferSize: 4096}
	b.srv = httptest.NewServer(http.HandlerFunc(func(w http.ResponseWriter, r *http.Request) {
		if r.URL.Path == "/hang-up" {
			// accept the connection, read the upgrade request, hang up without an answer
			if hj, ok := w.(http.Hijacker); ok {
				if c, _, err := hj.Hijack(); err == nil {
					c.Close()
				}
			}
			return
		}
		if r.URL.Path == "/reject-handshake" {
			http.Error(w, "no websocket here", http.StatusForbidden)
			return
		}
		c, err := up.Upgrade(w, r, nil)
		if err != nil {
			return
		}
		wc := &verifWSConn{c: c, done: make(chan struct{})}
		b.mu.Lock()
		b.conns = append(b.conns, wc)
		b.mu.Unlock()
		b.newC <- wc
		for {
			mt, data, err := c.ReadMessage()
			if err != nil {
				wc.mu.Lock()
				wc.closed = true
				if ce, ok := err.(*websocket.CloseError); ok {
					wc.closeCode = ce.Code
				}
				wc.mu.Unlock()
				close(wc.done)
				c.Close()
				return
			}
			wc.mu.Lock()
			wc.recv = append(wc.recv, verifWSMsg{Type: mt, Data: data})
			wc.mu.Unlock()
		}
	}))
	return b
}

func (b *verifWSBackend) host() string { return strings.TrimPrefix(b.srv.URL, "http://") }

func (c *verifWSConn) received() []verifWSMsg {
	c.mu.Lock()
	defer c.mu.Unlock()
	return append([]verifWSMsg(nil), c.recv...)
}

func (c *verifWSConn) waitReceived(n int, d time.Duration) bool {
	deadline := time.Now().Add(d)
	for time.Now().Before(deadline) {
		c.mu.Lock()
		k := len(c.recv)
		c.mu.Unlock()
		if k >= n {
			return true
		}
		time.Sleep(2 * time.Millisecond)
	}
	return false
}

// ---- the shim under test, called like the browser shim does (no network: handler-level) ----

type verifShim struct {
	h http.Handler
}

func newVerifShim(backendHost string, injection bool) *verifShim {
	wrapped := http.HandlerFunc(func(w http.ResponseWriter, r *http.Request) { w.WriteHeader(299) })
	ident := func(h http.Handler, _ *metrics.MetricHandler) http.Handler { return h }
	h, err := Proxy(context.Background(), wrapped, backendHost, "verifshim", false, injection, ident, nil)
	if err != nil {
		panic(err)
	}
	return &verifShim{h: h}
}

var verifCallNo int64

type verifCallResult struct {
	Status int
	Body   []byte
	Panic  string
	Hung   bool
}

// call runs one shim endpoint; a panic in the handler is captured (in the agent it would
// kill the process: workers are bare goroutines), a call that does not return is reported.
func (s *verifShim) call(endpoint string, body []byte, hdr map[string]string, timeout time.Duration) verifCallResult {
	resc := make(chan verifCallResult, 1)
	go func() {
		var res verifCallResult
		defer func() {
			if p := recover(); p != nil {
				res.Panic = fmt.Sprint(p)
			}
			resc <- res
		}()
		req := httptest.NewRequest("POST", "http://agent.local/verifshim/"+endpoint, bytes.NewReader(body))
		if atomic.AddInt64(&verifCallNo, 1)%3 == 0 {
			// every third call comes without a declared length (Transfer-Encoding: chunked, as fetch() with a stream body or an
			// HTTP/2 hop in front sends it): net/http reports ContentLength -1
			req = httptest.NewRequest("POST", "http://agent.local/verifshim/"+endpoint, io.MultiReader(bytes.NewReader(body)))
			req.ContentLength = -1
			req.TransferEncoding = []string{"chunked"}
		}
		for k, v := range hdr {
			req.Header.Set(k, v)
		}
		rec := httptest.NewRecorder()
		s.h.ServeHTTP(rec, req)
		res.Status = rec.Code
		res.Body = rec.Body.Bytes()
	}()
	select {
	case r := <-resc:
		return r
	case <-time.After(timeout):
		return verifCallResult{Hung: true}
	}
}

func (s *verifShim) open(target string, version string) (verifCallResult, string) {
	hdr := map[string]string{}
	if version != "" {
		hdr["X-Websocket-Shim-Version"] = version
	}
	r := s.call("open", []byte(target), hdr, 10*time.Second)
	var sm struct {
		ID string `json:"id"`
	}
	json.Unmarshal(r.Body, &sm)
	return r, sm.ID
}

func verifSessionBody(id string) []byte {
	b, _ := json.Marshal(map[string]string{"id": id})
	return b
}

// client-side encoding of one message for a data post (what the injected JS does)
func verifClientMsg(id string, m verifWSMsg, version int) map[string]interface{} {
	if m.Type == websocket.TextMessage {
		return map[string]interface{}{"id": id, "msg": string(m.Data)}
	}
	if version == 0 {
		return map[string]interface{}{"id": id, "msg": []string{string(m.Data)}}
	}
	return map[string]interface{}{"id": id, "msg": []string{base64.StdEncoding.EncodeToString(m.Data)}}
}

// decoding of a poll reply by the harness itself
func verifDecodePoll(body []byte, version int) ([]verifWSMsg, error) {
	var raw []json.RawMessage
	if err := json.Unmarshal(body, &raw); err != nil {
		return nil, err
	}
	var out []verifWSMsg
	for _, r := range raw {
		var s string
		if err := json.Unmarshal(r, &s); err == nil {
			out = append(out, verifWSMsg{Type: websocket.TextMessage, Data: []byte(s)})
			continue
		}
		var arr []string
		if err := json.Unmarshal(r, &arr); err != nil || len(arr) != 1 {
			return nil, fmt.Errorf("unexpected poll element %s", r)
		}
		if version == 0 {
			out = append(out, verifWSMsg{Type: websocket.BinaryMessage, Data: []byte(arr[0])})
		} else {
			d, err := base64.StdEncoding.DecodeString(arr[0])
			if err != nil {
				return nil, err
			}
			out = append(out, verifWSMsg{Type: websocket.BinaryMessage, Data: d})
		}
	}
	return out, nil
}
