//go:build verif

package websockets

import (
	"bytes"
	"encoding/hex"
	"fmt"
	"io"
	"net/http"
	"strings"
	"testing"
)

// a body whose Read calls return scripted segment sizes
type verifSegBody struct {
	data []byte
	segs []int
	i    int
	off  int
}

func (b *verifSegBody) Read(p []byte) (int, error) {
	if b.off >= len(b.data) {
		return 0, io.EOF
	}
	n := len(p)
	if b.i < len(b.segs) && b.segs[b.i] < n {
		n = b.segs[b.i]
	}
	b.i++
	if n > len(b.data)-b.off {
		n = len(b.data) - b.off
	}
	copy(p, b.data[b.off:b.off+n])
	b.off += n
	return n, nil
}
func (b *verifSegBody) Close() error { return nil }

// TestVerifC14Shim: ShimBody on scripted responses with scripted read segmentation.
func TestVerifC14Shim(t *testing.T) {
	out := verifOpenOut(t)
	defer out.close()
	rng := &verifRng{s: verifSeed()}
	fn, err := ShimBody("verifshim")
	if err != nil {
		t.Fatal(err)
	}
	// the script itself: what the function inserts into the minimal document
	r0 := &http.Response{Header: http.Header{"Content-Type": {"text/html"}}, Body: io.NopCloser(strings.NewReader("<head>"))}
	fn(r0)
	b0, _ := io.ReadAll(r0.Body)
	script := strings.TrimPrefix(string(b0), "<head>")
	out.emit(map[string]interface{}{"kind": "script", "len": len(script), "mentions_path": strings.Contains(script, "/verifshim/")})
	ctypes := []string{"text/html", "text/html; charset=utf-8", "TEXT/HTML", "application/xhtml+xml", "application/json", "text/plain", "", "image/png", "application/x-html-thing"}
	mk := func(pre int, tag string, post int) []byte {
		var b bytes.Buffer
		b.WriteString(strings.Repeat("p", pre))
		b.WriteString(tag)
		b.WriteString(strings.Repeat("q", post))
		return b.Bytes()
	}
	var bodies [][]byte
	for _, off := range []int{0, 1, 100, 1017, 1018, 1019, 1020, 1023, 1024, 1025, 2000} {
		bodies = append(bodies, mk(off, "<head>", 50), mk(off, "<HEAD>", 50), mk(off, "<head><head>", 10), mk(off, "<head lang=en>", 10))
	}
	bodies = append(bodies, []byte(""), []byte("<hea"), []byte("no tags at all"), mk(10, "<head>", 5000), mk(3, "<head>x<head>", 3))
	n := 600
	if verifThorough() {
		n = 40000
	}
	for i := 0; i < n; i++ {
		body := bodies[rng.intn(len(bodies))]
		var segs []int
		switch rng.intn(4) {
		case 0:
			segs = nil // as much as asked
		case 1:
			segs = []int{1 + rng.intn(1200)}
		case 2:
			for k := 0; k < 5; k++ {
				segs = append(segs, 1+rng.intn(30))
			}
		default:
			segs = []int{rng.intn(1100) + 1, 1, 2000}
		}
		ct := ctypes[rng.intn(len(ctypes))]
		hdr := http.Header{"Content-Length": {"123"}, "X-Other": {"o"}}
		if ct != "" {
			hdr.Set("Content-Type", ct)
		}
		sb := &verifSegBody{data: body, segs: segs}
		resp := &http.Response{StatusCode: 200, Header: hdr, Body: sb, ContentLength: int64(len(body))}
		hdr.Set("Content-Length", fmt.Sprint(len(body)))
		if i%3 == 0 {
			// a response of unknown length (chunked, HTTP/1.0 close-delimited, HTTP/2 without a length)
			resp.ContentLength = -1
			hdr.Del("Content-Length")
		}
		hadLength := resp.ContentLength >= 0
		ferr := fn(resp)
		got, _ := io.ReadAll(resp.Body)
		first := 0
		if len(segs) > 0 {
			first = segs[0]
		} else {
			first = 1024
		}
		if first > 1024 {
			first = 1024
		}
		if first > len(body) {
			first = len(body)
		}
		errs := ""
		if ferr != nil {
			errs = ferr.Error()
		}
		rec := map[string]interface{}{"kind": "shim", "content_type": ct, "body_len": len(body), "first_read": first, "segs": segs, "out_len": len(got),
			"unchanged": bytes.Equal(got, body), "content_length_kept": (resp.Header.Get("Content-Length") != "") == hadLength, "had_length": hadLength, "content_length_after": resp.Header.Get("Content-Length"), "other_kept": resp.Header.Get("X-Other") == "o", "err": errs}
		// where (if anywhere) the script was inserted
		if idx := bytes.Index(got, []byte(script)); idx >= 0 && len(script) > 0 {
			rec["insert_at"] = idx
			rest := append(append([]byte{}, got[:idx]...), got[idx+len(script):]...)
			rec["rest_equals_body"] = bytes.Equal(rest, body)
			rec["inserted_twice"] = bytes.Contains(got[idx+len(script):], []byte(script))
		}
		if len(body) <= 2100 {
			rec["body_hex"] = hex.EncodeToString(body)
		}
		rec["first_head"] = bytes.Index(body, []byte("<head>"))
		out.emit(rec)
	}
}
