//go:build verif

package websockets

import (
	"bytes"
	"crypto/sha256"
	"encoding/hex"
	"encoding/json"
	"fmt"
	"net/http"
	"net/http/httptest"
	"strings"
	"sync"
	"testing"
	"time"

	"github.com/gorilla/websocket"
)

func verifMsgSummary(ms []verifWSMsg) [][3]interface{} {
	var out [][3]interface{}
	for _, m := range ms {
		h := sha256.Sum256(m.Data)
		out = append(out, [3]interface{}{m.Type, len(m.Data), hex.EncodeToString(h[:6])})
	}
	return out
}

func verifGenMsg(rng *verifRng, i int) verifWSMsg {
	texts := []string{"", "a", "hello world", "café ✓ \U0001F600", "<script>&\"quotes\"'\\ \n\t", "{\"json\":[1,2,3]}", "\u0000ctl\u001f", strings.Repeat("t", 5000)}
	// corpus at fixed positions of every stream (client->server 1.., server->client 1000..): text that looks like JSON
	// escapes, which must arrive as the characters they are
	escapes := []string{`a \u003c b`, `C:\users\u0026me`, `{"text":"a \u003e b \u0026 c"}`, `\\u003c`, `\"quoted\"`, `line\nfeed`, "\u2028\u2029", `</script><!--`}
	if k := i % 1000; k >= 1 && k <= len(escapes) {
		return verifWSMsg{Type: websocket.TextMessage, Data: []byte(escapes[k-1])}
	}
	if rng.intn(2) == 0 {
		t := texts[rng.intn(len(texts))]
		if rng.intn(20) == 0 {
			t = strings.Repeat("L", 200000+rng.intn(800000))
		}
		return verifWSMsg{Type: websocket.TextMessage, Data: []byte(t)}
	}
	l := []int{0, 1, 2, 3, 4, 255, 256, 1000, 70000}[rng.intn(9)]
	if rng.intn(25) == 0 {
		l = 1 << 20
	}
	b := make([]byte, l)
	for j := range b {
		b[j] = byte(rng.next())
	}
	if i == 0 {
		b = make([]byte, 256)
		for j := range b {
			b[j] = byte(j)
		}
	}
	return verifWSMsg{Type: websocket.BinaryMessage, Data: b}
}

// TestVerifC11: message sequences in both directions through the shim, batched into
// data posts and polls in every way, with one post and one poll outstanding at a time.
func TestVerifC11(t *testing.T) {
	out := verifOpenOut(t)
	defer out.close()
	rng := &verifRng{s: verifSeed()}
	be := newVerifWSBackend()
	defer be.srv.Close()
	shim := newVerifShim(be.host(), false)
	nsess := 24
	if verifThorough() {
		nsess = 600
	}
	var wg sync.WaitGroup
	sem := make(chan struct{}, 8)
	var openMu sync.Mutex
	for si := 0; si < nsess; si++ {
		sub := &verifRng{s: rng.next()}
		version := 1
		if si%6 == 5 {
			version = 0
		}
		wg.Add(1)
		sem <- struct{}{}
		go func(si int, rng *verifRng, version int) {
			defer wg.Done()
			defer func() { <-sem }()
			// open (serialised so that the backend connection can be matched to the session)
			openMu.Lock()
			vs := "1"
			if version == 0 {
				vs = ""
			}
			r, id := shim.open("ws://ignored.example/ws?s="+string(rune('a'+si%26)), vs)
			var bc *verifWSConn
			if r.Status == 200 {
				select {
				case bc = <-be.newC:
				case <-time.After(5 * time.Second):
				}
			}
			openMu.Unlock()
			if r.Status != 200 || bc == nil {
				out.emit(map[string]interface{}{"kind": "c11", "session": si, "error": "open failed", "status": r.Status})
				return
			}
			// client -> server
			var sent []verifWSMsg
			var batches []int
			nb := 1 + rng.intn(6)
			if si%5 == 0 {
				nb = 3
			}
			var dataStatuses []int
			for b := 0; b < nb; b++ {
				k := 1 + rng.intn(8)
				if si%5 == 0 && b == 1 {
					k = 25 + rng.intn(15) // more than the 10-slot queue in one post
				}
				var post []map[string]interface{}
				for j := 0; j < k; j++ {
					m := verifGenMsg(rng, len(sent))
					if version == 0 && m.Type == websocket.BinaryMessage {
						m.Type = websocket.TextMessage
						m.Data = []byte("v0-text")
					}
					sent = append(sent, m)
					post = append(post, verifClientMsg(id, m, version))
				}
				batches = append(batches, k)
				body, _ := json.Marshal(post)
				dr := shim.call("data", body, nil, 30*time.Second)
				dataStatuses = append(dataStatuses, dr.Status)
			}
			gotAll := bc.waitReceived(len(sent), 20*time.Second)
			recv := bc.received()
			// server -> client
			var ssent []verifWSMsg
			var polled []verifWSMsg
			var pollSizes []int
			var bursts []int
			nbursts := 1 + rng.intn(5)
			pollErr := ""
			for b := 0; b < nbursts; b++ {
				k := 1 + rng.intn(12)
				if si%4 == 0 && b == 0 {
					k = 30 // more than the 10-slot queue between two polls
				}
				bursts = append(bursts, k)
				start := len(ssent)
				for j := 0; j < k; j++ {
					m := verifGenMsg(rng, 1000+len(ssent))
					if version == 0 && m.Type == websocket.BinaryMessage {
						// binary payloads are only guaranteed intact under protocol version 1
						m.Type = websocket.TextMessage
						m.Data = []byte("v0-text")
					}
					ssent = append(ssent, m)
				}
				// the backend sends on its own goroutine: with more than 10 messages it is
				// throttled by the shim's queue until polls drain it
				sendDone := make(chan struct{})
				go func(ms []verifWSMsg) {
					for _, m := range ms {
						bc.c.WriteMessage(m.Type, m.Data)
					}
					close(sendDone)
				}(ssent[start:])
				for len(polled) < len(ssent) {
					pr := shim.call("poll", verifSessionBody(id), nil, 30*time.Second)
					if pr.Status != 200 {
						pollErr = "poll status " + string(rune('0'+pr.Status/100)) + "xx"
						break
					}
					ms, err := verifDecodePoll(pr.Body, version)
					if err != nil {
						pollErr = "decode: " + err.Error()
						break
					}
					pollSizes = append(pollSizes, len(ms))
					polled = append(polled, ms...)
				}
				<-sendDone
				if pollErr != "" {
					break
				}
			}
			cr := shim.call("close", verifSessionBody(id), nil, 10*time.Second)
			backendSawClose := false
			select {
			case <-bc.done:
				backendSawClose = true
			case <-time.After(3 * time.Second):
			}
			eq := func(a, b []verifWSMsg) bool {
				if len(a) != len(b) {
					return false
				}
				for i := range a {
					if a[i].Type != b[i].Type || !bytes.Equal(a[i].Data, b[i].Data) {
						return false
					}
				}
				return true
			}
			out.emit(map[string]interface{}{"kind": "c11", "session": si, "version": version,
				"c2s_batches": batches, "c2s_sent": verifMsgSummary(sent), "c2s_received": verifMsgSummary(recv), "c2s_equal": eq(sent, recv), "c2s_complete": gotAll, "data_statuses": dataStatuses,
				"s2c_bursts": bursts, "s2c_sent": verifMsgSummary(ssent), "s2c_polled": verifMsgSummary(polled), "s2c_equal": eq(ssent, polled), "poll_sizes": pollSizes, "poll_err": pollErr,
				"close_status": cr.Status, "backend_saw_close": backendSawClose})
		}(si, sub, version)
	}
	wg.Wait()
}

// TestVerifC11Inject: header injection into JSON messages.
func TestVerifC11Inject(t *testing.T) {
	out := verifOpenOut(t)
	defer out.close()
	be := newVerifWSBackend()
	defer be.srv.Close()
	shim := newVerifShim(be.host(), true)
	msgs := []string{
		`{"resource":{"headers":{}}}`,
		`{"resource":{"headers":{"X-Test":"present"}},"other":[1,2,{"a":null}]}`,
		`{"resource":{"headers":{"x-test":"lower"}}}`,
		`{"resource":{"headers":"not-an-object"}}`,
		`{"resource":{}}`,
		`{"resource":[1,2]}`,
		`{"a":1}`,
		`[1,2,3]`,
		`"just a string"`,
		`not json at all`,
		``,
		`{"resource":{"headers":{}},"big":12345678901234567890,"frac":0.1,"exp":1e400,"neg":-0}`,
		`{"resource":{"headers":{}},"html":"<b>&amp;</b>","uni":"café"}`,
		`{"resource":{"headers":{}},"big":12345678901234567890}`,
		`{"resource":{"headers":{}},"big":9007199254740993,"small":3,"f":2.5}`,
		` {"resource" : {"headers" : { } } , "ws" : "spaces" } `,
		`{"resource":{"headers":{"Content-Type":"keep"}},"nested":{"resource":{"headers":{}}}}`,
		// keys that are present with "empty-looking" values stay as they are
		`{"resource":{"headers":{"X-Test":null}}}`,
		`{"resource":{"headers":{"X-Test":""}}}`,
		`{"resource":{"headers":{"X-Test":false,"Content-Type":0}}}`,
		`{"resource":{"headers":{"X-Test":[],"Content-Type":{}}}}`,
		`{"resource":{"headers":{"X-Test":null,"Content-Type":null,"X-Websocket-Shim-Version":null}}}`,
		`{"resource":{"headers":null}}`,
		`{"resource":null}`,
		`null`,
	}
	hdrs := map[string]string{"X-Test": "injected", "Content-Type": "application/json", "X-Websocket-Shim-Version": "1"}
	r, id := shim.open("ws://ignored/ws", "1")
	if r.Status != 200 {
		t.Fatalf("open: %d", r.Status)
	}
	bc := <-be.newC
	for i, m := range msgs {
		body, _ := json.Marshal([]map[string]interface{}{{"id": id, "msg": m}})
		dr := shim.call("data", body, hdrs, 10*time.Second)
		ok := bc.waitReceived(i+1, 3*time.Second)
		rec := map[string]interface{}{"kind": "inject", "sent": m, "status": dr.Status, "delivered": ok, "request_headers": hdrs}
		if ok {
			got := bc.received()[i]
			rec["received"] = string(got.Data)
			rec["type"] = got.Type
		}
		out.emit(rec)
	}
	// the same messages as binary frames (a client may send JSON in binary messages): injection adds headers, it does not
	// change what kind of message it is
	for j, m := range msgs {
		body, _ := json.Marshal([]map[string]interface{}{verifClientMsg(id, verifWSMsg{Type: websocket.BinaryMessage, Data: []byte(m)}, 1)})
		dr := shim.call("data", body, hdrs, 10*time.Second)
		ok := bc.waitReceived(len(msgs)+j+1, 3*time.Second)
		rec := map[string]interface{}{"kind": "inject", "sent": m, "sent_type": websocket.BinaryMessage, "status": dr.Status, "delivered": ok, "request_headers": hdrs}
		if ok {
			got := bc.received()[len(msgs)+j]
			rec["received"] = string(got.Data)
			rec["type"] = got.Type
		}
		out.emit(rec)
	}
	shim.call("close", verifSessionBody(id), nil, 5*time.Second)
}

// TestVerifC11B64: the exact base64 text the agent produces for binary server messages.
func TestVerifC11B64(t *testing.T) {
	out := verifOpenOut(t)
	defer out.close()
	be := newVerifWSBackend()
	defer be.srv.Close()
	shim := newVerifShim(be.host(), false)
	r, id := shim.open("ws://ignored/ws", "1")
	if r.Status != 200 {
		t.Fatalf("open: %d", r.Status)
	}
	bc := <-be.newC
	var payloads [][]byte
	for l := 0; l <= 8; l++ {
		b := make([]byte, l)
		for i := range b {
			b[i] = byte(250 + i + l)
		}
		payloads = append(payloads, b)
	}
	all := make([]byte, 256)
	for i := range all {
		all[i] = byte(i)
	}
	payloads = append(payloads, all, []byte{0xfb, 0xff, 0xbe}, []byte{0xff, 0xff, 0xff, 0xff}, []byte{0, 0, 0})
	for _, p := range payloads {
		bc.c.WriteMessage(websocket.BinaryMessage, p)
		pr := shim.call("poll", verifSessionBody(id), nil, 25*time.Second)
		var raw [][]string
		json.Unmarshal(pr.Body, &raw)
		text := ""
		if len(raw) == 1 && len(raw[0]) == 1 {
			text = raw[0][0]
		}
		out.emit(map[string]interface{}{"kind": "b64", "payload": hex.EncodeToString(p), "text": text, "status": pr.Status})
	}
	shim.call("close", verifSessionBody(id), nil, 5*time.Second)
}

// TestVerifC11Tail: the backend sends k messages and then ends the connection (close handshake or dropped
// socket) BEFORE the client polls.  The messages sent before the end are part of the stream and must all be
// polled, in order, before the session reports its end.
func TestVerifC11Tail(t *testing.T) {
	out := verifOpenOut(t)
	defer out.close()
	rng := &verifRng{s: verifSeed()}
	be := newVerifWSBackend()
	defer be.srv.Close()
	shim := newVerifShim(be.host(), false)
	for _, k := range []int{1, 2, 3, 9, 10, 11, 14} {
		for _, how := range []string{"close-handshake", "drop"} {
			for _, wait := range []int{150, 0} {
				r, id := shim.open("ws://ignored/ws", "1")
				if r.Status != 200 {
					out.emit(map[string]interface{}{"kind": "tail", "error": "open failed", "status": r.Status})
					continue
				}
				bc := <-be.newC
				var ssent []verifWSMsg
				for j := 0; j < k; j++ {
					m := verifGenMsg(rng, 5000+j)
					ssent = append(ssent, m)
				}
				ended := make(chan struct{})
				go func() {
					defer close(ended)
					for _, m := range ssent {
						bc.c.WriteMessage(m.Type, m.Data)
					}
					if how == "close-handshake" {
						bc.c.WriteControl(websocket.CloseMessage, websocket.FormatCloseMessage(websocket.CloseNormalClosure, "bye"), time.Now().Add(time.Second))
						time.Sleep(20 * time.Millisecond)
					}
					bc.c.UnderlyingConn().Close()
				}()
				if wait > 0 {
					select {
					case <-ended:
					case <-time.After(2 * time.Second):
					}
					time.Sleep(time.Duration(wait) * time.Millisecond)
				}
				var polled []verifWSMsg
				var statuses []int
				for p := 0; p < 40 && len(polled) < len(ssent); p++ {
					pr := shim.call("poll", verifSessionBody(id), nil, 25*time.Second)
					statuses = append(statuses, pr.Status)
					if pr.Status != 200 {
						break
					}
					ms, err := verifDecodePoll(pr.Body, 1)
					if err != nil {
						break
					}
					polled = append(polled, ms...)
				}
				eq := len(polled) == len(ssent)
				for i := 0; eq && i < len(polled); i++ {
					eq = polled[i].Type == ssent[i].Type && bytes.Equal(polled[i].Data, ssent[i].Data)
				}
				shim.call("close", verifSessionBody(id), nil, 5*time.Second)
				out.emit(map[string]interface{}{"kind": "tail", "messages": k, "end": how, "wait_before_first_poll_ms": wait, "s2c_sent": verifMsgSummary(ssent), "s2c_polled": verifMsgSummary(polled), "s2c_equal": eq, "poll_statuses": statuses})
			}
		}
	}
}

// TestVerifC11Idle: a healthy session on which nothing is said for longer than any plausible I/O deadline (33 s), with a poll
// outstanding for the first 20 s.  What either side says afterwards must still be delivered.
func TestVerifC11Idle(t *testing.T) {
	out := verifOpenOut(t)
	defer out.close()
	be := newVerifWSBackend()
	defer be.srv.Close()
	shim := newVerifShim(be.host(), false)
	r, id := shim.open("ws://ignored/ws", "1")
	if r.Status != 200 {
		out.emit(map[string]interface{}{"kind": "idle", "error": "open failed", "status": r.Status})
		return
	}
	bc := <-be.newC
	silence := 33 * time.Second
	res := map[string]interface{}{"kind": "idle", "silence_ms": silence.Milliseconds()}
	// before the silence: one message each way
	bc.c.WriteMessage(websocket.TextMessage, []byte("s2c-before"))
	pr := shim.call("poll", verifSessionBody(id), nil, 25*time.Second)
	ms, _ := verifDecodePoll(pr.Body, 1)
	res["before_polled"] = verifMsgSummary(ms)
	body, _ := json.Marshal([]map[string]interface{}{verifClientMsg(id, verifWSMsg{Type: websocket.TextMessage, Data: []byte("c2s-before")}, 1)})
	res["before_data_status"] = shim.call("data", body, nil, 10*time.Second).Status
	bc.waitReceived(1, 3*time.Second)
	// the silence: one long poll that comes back empty (20 s), then nothing at all
	var idleStatuses []int
	end := time.Now().Add(silence)
	p := shim.call("poll", verifSessionBody(id), nil, 25*time.Second)
	idleStatuses = append(idleStatuses, p.Status)
	if d := time.Until(end); d > 0 {
		time.Sleep(d)
	}
	res["idle_poll_statuses"] = idleStatuses
	// after the silence
	werr := bc.c.WriteMessage(websocket.TextMessage, []byte("s2c-after"))
	pr = shim.call("poll", verifSessionBody(id), nil, 25*time.Second)
	ms, _ = verifDecodePoll(pr.Body, 1)
	res["after_poll_status"] = pr.Status
	res["after_polled"] = verifMsgSummary(ms)
	res["after_s2c_ok"] = werr == nil && len(ms) == 1 && string(ms[0].Data) == "s2c-after"
	body, _ = json.Marshal([]map[string]interface{}{verifClientMsg(id, verifWSMsg{Type: websocket.TextMessage, Data: []byte("c2s-after")}, 1)})
	dr := shim.call("data", body, nil, 10*time.Second)
	res["after_data_status"] = dr.Status
	ok := bc.waitReceived(2, 3*time.Second)
	recv := bc.received()
	res["after_c2s_ok"] = dr.Status == 200 && ok && len(recv) >= 2 && string(recv[len(recv)-1].Data) == "c2s-after"
	shim.call("close", verifSessionBody(id), nil, 5*time.Second)
	out.emit(res)
}

// TestVerifC11SendThenClose: a data post that the shim has answered 200 is followed at once by the close of the session,
// while the backend is still taking the messages in (it needs 20 ms per message; the batch is larger than the shim's
// queue).  Every message of the accepted post must reach the backend, in order, before the websocket is closed.
func TestVerifC11SendThenClose(t *testing.T) {
	out := verifOpenOut(t)
	defer out.close()
	up := websocket.Upgrader{ReadBufferSize: 4096, WriteBufferSize: 4096}
	for _, sc := range []struct {
		name   string
		n, sz  int
		perMsg time.Duration
	}{{"12 x 1 MiB, 20 ms each", 12, 1 << 20, 20 * time.Millisecond}, {"30 x 10 B, 10 ms each", 30, 10, 10 * time.Millisecond}, {"8 x 100 B, prompt reader", 8, 100, 0}} {
		type got struct {
			lens      []int
			firstByte []byte
			closeCode int
		}
		resc := make(chan got, 1)
		srv := httptest.NewServer(http.HandlerFunc(func(w http.ResponseWriter, r *http.Request) {
			c, err := up.Upgrade(w, r, nil)
			if err != nil {
				return
			}
			defer c.Close()
			var g got
			g.closeCode = -1
			for {
				_, data, err := c.ReadMessage()
				if err != nil {
					if ce, ok := err.(*websocket.CloseError); ok {
						g.closeCode = ce.Code
					}
					resc <- g
					return
				}
				g.lens = append(g.lens, len(data))
				if len(data) > 0 {
					g.firstByte = append(g.firstByte, data[0])
				}
				time.Sleep(sc.perMsg)
			}
		}))
		shim := newVerifShim(strings.TrimPrefix(srv.URL, "http://"), false)
		r, id := shim.open("ws://ignored/ws", "1")
		res := map[string]interface{}{"kind": "send-then-close", "scenario": sc.name, "messages": sc.n, "size": sc.sz, "open_status": r.Status}
		if r.Status == 200 {
			var post []map[string]interface{}
			for i := 0; i < sc.n; i++ {
				b := bytes.Repeat([]byte{byte('a' + i%26)}, sc.sz)
				post = append(post, verifClientMsg(id, verifWSMsg{Type: websocket.TextMessage, Data: b}, 1))
			}
			body, _ := json.Marshal(post)
			dr := shim.call("data", body, nil, 60*time.Second)
			cr := shim.call("close", verifSessionBody(id), nil, 30*time.Second)
			res["data_status"], res["close_status"] = dr.Status, cr.Status
			select {
			case g := <-resc:
				inOrder := len(g.lens) == sc.n
				for i := 0; inOrder && i < len(g.firstByte); i++ {
					inOrder = g.lens[i] == sc.sz && g.firstByte[i] == byte('a'+i%26)
				}
				res["backend_received"] = len(g.lens)
				res["all_in_order"] = inOrder
				res["backend_close_code"] = g.closeCode
			case <-time.After(30 * time.Second):
				res["backend_received"] = -1
				res["all_in_order"] = false
			}
		}
		out.emit(res)
		srv.CloseClientConnections()
		srv.Close()
	}
}

// TestVerifC11Backpressure: an echoing backend (what it sends is caused by what it receives), a client that posts 48 messages
// of 1 MiB in batches of 8 and whose first poll comes late (2 s): by then both 10-slot queues and the socket buffers are
// full and a data post is waiting for room.  The poll must still drain the server-side queue, after which everything
// flows: every message comes back once, in order, unchanged, and every data post is answered.
func TestVerifC11Backpressure(t *testing.T) {
	out := verifOpenOut(t)
	defer out.close()
	up := websocket.Upgrader{ReadBufferSize: 4096, WriteBufferSize: 4096}
	srv := httptest.NewServer(http.HandlerFunc(func(w http.ResponseWriter, r *http.Request) {
		c, err := up.Upgrade(w, r, nil)
		if err != nil {
			return
		}
		defer c.Close()
		for {
			mt, data, err := c.ReadMessage()
			if err != nil {
				return
			}
			if err := c.WriteMessage(mt, data); err != nil {
				return
			}
		}
	}))
	defer srv.CloseClientConnections()
	shim := newVerifShim(strings.TrimPrefix(srv.URL, "http://"), false)
	res := map[string]interface{}{"kind": "backpressure", "messages": 48, "message_bytes": 1 << 20, "first_poll_after_ms": 2000}
	r, id := shim.open("ws://ignored/ws", "1")
	if r.Status != 200 {
		res["error"] = fmt.Sprintf("open: %d", r.Status)
		out.emit(res)
		return
	}
	const total, batch = 48, 8
	mk := func(k int) string { return fmt.Sprintf("%06d", k) + strings.Repeat(string(rune('a'+k%26)), 1<<20-6) }
	postDone := make(chan []int, 1)
	go func() {
		var sts []int
		for b := 0; b < total/batch; b++ {
			var msgs []map[string]interface{}
			for k := b * batch; k < (b+1)*batch; k++ {
				msgs = append(msgs, map[string]interface{}{"id": id, "msg": mk(k)})
			}
			body, _ := json.Marshal(msgs)
			cr := shim.call("data", body, map[string]string{"X-Websocket-Shim-Version": "1"}, 40*time.Second)
			st := cr.Status
			if cr.Hung {
				st = -1
			}
			sts = append(sts, st)
			if st != 200 {
				break
			}
		}
		postDone <- sts
	}()
	time.Sleep(2 * time.Second)
	got, inOrder, intact := 0, true, true
	var pollStatuses []int
	deadline := time.Now().Add(40 * time.Second)
	for got < total && time.Now().Before(deadline) {
		cr := shim.call("poll", verifSessionBody(id), map[string]string{"X-Websocket-Shim-Version": "1"}, 25*time.Second)
		st := cr.Status
		if cr.Hung {
			st = -1
		}
		pollStatuses = append(pollStatuses, st)
		if st == -1 {
			break
		}
		if st != 200 {
			continue
		}
		ms, err := verifDecodePoll(cr.Body, 1)
		if err != nil {
			intact = false
			break
		}
		for _, m := range ms {
			if string(m.Data) != mk(got) {
				if len(m.Data) >= 6 && string(m.Data[:6]) != fmt.Sprintf("%06d", got) {
					inOrder = false
				} else {
					intact = false
				}
			}
			got++
		}
	}
	res["echoed_back"], res["in_order"], res["intact"] = got, inOrder, intact
	if len(pollStatuses) > 12 {
		pollStatuses = append(pollStatuses[:6], pollStatuses[len(pollStatuses)-6:]...)
	}
	res["poll_statuses"] = pollStatuses
	select {
	case sts := <-postDone:
		res["data_post_statuses"] = sts
	case <-time.After(10 * time.Second):
		res["data_post_statuses"] = []int{-1}
	}
	shim.call("close", verifSessionBody(id), nil, 5*time.Second)
	out.emit(res)
}
