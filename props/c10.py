"""C10 - session tracking hides backend cookies and never mixes sessions."""
import collections
import json
import os
import re
import subprocess

from lib import common as C
from lib import servsched
from lib.driver import Prop

OVERLAY = {"agent/sessions/zz_verif_common_test.go": "agent_sessions/verif_common_test.go", "agent/sessions/zz_verif_c10_test.go": "agent_sessions/verif_c10_test.go"}
COOKIE = "verif-session"
FORGED = 900000


def parse_nested(txt):
    """'name = [[1; 2]; []] : list (list nat)' -> [[1,2],[]]"""
    m = re.search(r"=\s*(\[.*\])\s*:", txt, re.S)
    body = m.group(1)
    body = re.sub(r"%\w+", "", body).replace(";", ",")
    return json.loads(body)


def coq_s(x):
    return '"%s"%%string' % x.replace('"', '""')


class C10(Prop):
    pid = "C10"
    props_file = "Props/C10.v"
    model_targets = ["theories/Sessions/SessionsCheck.vo", "theories/Sessions/Writer.vo"]
    technique = "Coq invariant proof of session isolation for every request history and cache limit, parametric in the cookie jar (a jar is the list of operations applied to it) + regenerated source fact + differential run of the real SessionHandler, with the cookies of each modelled session evaluated on an independent net/http/cookiejar; concurrent run under the race detector"
    level_text = ("C10_isolation proves for every history of requests over any number of sessions and every cache limit that the cookies restored into a request come only from Set-Cookie operations performed in the session whose cookie it presents, and that a request without session cookie "
                  "gets nothing restored - independently of what a cookie jar does with the operations; C10_session_cookie proves that the session cookie is issued exactly to clients presenting none; C10_window_complete proves completeness inside the window: for every cache limit and every history in which clients present only issued session cookies, as long as a session has always been among the K most recently used ones since it first appeared, a request presenting it is given exactly the operations of all earlier requests of that session, in order (C10_outside_window_cookies_lost shows the bound is sharp). The real handler is run on generated histories (sessions x hosts x paths; set / overwrite / delete / expire, "
                  "Path- and Domain-scoped, Secure, HttpOnly cookies; client extra cookies; cache limits 1, 2, 3, 1000); the model says which operations belong to the consulted jar, an independent cookiejar says what they amount to, and the backend must have seen exactly the client's other cookies followed by those. "
                  "Client-visible Set-Cookie must be the session cookie only (HttpOnly, Path=/, Secure unless the test override). Concurrent requests in the same and different sessions run under -race.")
    level_note = ("Trusted: Coq kernel, srcfacts (no cache entry for the empty session ID), harness, harness/cmd/jareval (independent cookiejar evaluation), race detector. Modelled, not verified: groupcache/lru (recency list with bound), net/http/cookiejar (abstract), uuid freshness (counter). "
                  "PARTIAL: crash-freedom under concurrency is decided by the race detector run, not by a theorem; completeness within the window (nothing of the session is lost while it stays among the K most recent) is compared on every run via the executable model, not proved.")
    partial_note = "concurrency (no crash, no mixing under concurrent requests) is outside the sequential model and is decided by the -race run; the cookie jar itself is an abstract parameter evaluated by an independent net/http/cookiejar"
    assumptions = ["a cookie jar's content is a function of the sequence of SetCookies operations applied to it", "session IDs (uuid) are fresh"]

    def harness(self, ctx):
        rc, out, p, dt = C.go_test_overlay(ctx.work, "./agent/sessions/", "TestVerifC10$", OVERLAY, "c10.jsonl", ctx.seed, ctx.tier, timeout=1200)
        hs = [r for r in C.read_jsonl(p) if r.get("kind") == "history"]
        if rc != 0 or not hs:
            raise RuntimeError("C10 harness did not run: rc=%s\n%s" % (rc, out[-2000:]))
        rc, out, p, dt = C.go_test_overlay(ctx.work, "./agent/sessions/", "TestVerifC10Concurrent$", OVERLAY, "c10c.jsonl", ctx.seed, ctx.tier, race=True, timeout=1200)
        conc = C.read_jsonl(p)
        races = servsched.race_reports(out)
        fatal = "fatal error" in out or "panic:" in out
        if not conc and not races and not fatal:
            raise RuntimeError("C10 concurrent harness did not run: rc=%s\n%s" % (rc, out[-2000:]))
        for h in hs:
            for r in h["reqs"]:
                r["extra"] = r.get("extra") or []
                r["set_cookies"] = r.get("set_cookies") or []
            for o in h["obs"]:
                o["backend_cookies"] = o.get("backend_cookies") or []
                o["client_set"] = o.get("client_set") or []
        fatal_txt = out[-3000:] if fatal else ""
        rc, out, p, dt = C.go_test_overlay(ctx.work, "./agent/sessions/", "TestVerifC10(Interim|ReleaseOrder)$", OVERLAY, "c10i.jsonl", ctx.seed, ctx.tier, timeout=600)
        rows = C.read_jsonl(p)
        interim = [r for r in rows if r.get("kind") == "interim"]
        release = [r for r in rows if r.get("kind") == "release-order"]
        if rc != 0 or not interim or not release:
            raise RuntimeError("C10 interim-response / release-order harness did not run: rc=%s\n%s" % (rc, out[-2000:]))
        return {"histories": hs, "conc": conc, "races": races, "fatal": fatal_txt, "interim": interim, "release": release}

    @staticmethod
    def model_uses(h):
        """model session numbers: the k-th cookie-less request gets session k (1-based)"""
        sid, n, uses = {}, 0, []
        for i, r in enumerate(h["reqs"]):
            if r["use"] == -1:
                n += 1
                sid[i] = n
                uses.append(0)
            elif r["use"] == -2:
                uses.append(FORGED)
            else:
                uses.append(sid[r["use"]])
        return uses

    def _model(self, ctx, hs):
        items = []
        for h in hs:
            uses = self.model_uses(h)
            items.append("eval_history %d %s" % (h["limit"], C.llit("(%d, %s)" % (u, C.blit(bool(r["set_cookies"]))) for u, r in zip(uses, h["reqs"]))))
        body = "\n".join(["From Coq Require Import List Arith Bool.", "From IP Require Import Sessions.Sessions Sessions.SessionsCheck.", "Import ListNotations.",
                          "Definition verif_result : list (list (list nat)) := Eval vm_compute in " + C.llit(items) + "."])
        txt, out, dt = C.eval_cases(ctx.work, "cases_c10", body)
        if txt is None:
            return None, out
        return parse_nested(txt), dt

    def oracle(self, ctx, obs):
        res = []
        if obs["fatal"]:
            res.append(("concurrent:crash", "the handler crashed under concurrent requests", {"output": obs["fatal"]}))
        for sig, txt in obs["races"]:
            res.append((sig, "the race detector reported a data race in the session handler", {"report": txt}))
        for r in obs.get("release") or []:
            saw = r.get("follow_up_saw") or []
            want = r["expected_in_follow_up"]
            name = r["backend_set"].split("=")[0]
            ok = (want in saw) if want else not any(c.startswith(name + "=") for c in saw)
            if not ok:
                res.append(("cookie-not-in-session-when-response-released", "the backend answered with Set-Cookie %r; a request of the same session made the instant that response was released reached the backend with %s" % (r["backend_set"], saw),
                            {"driver": "TestVerifC10ReleaseOrder: the writer behind the session response writer issues a follow-up request of the session from inside WriteHeader", "observed": r}))
        for r in obs.get("interim") or []:
            b = r["backend"]
            rp = {"driver": "TestVerifC10Interim: client -> SessionHandler -> httputil.ReverseProxy -> raw backend answering %s then %s" % (b.get("interim") or "nothing", b["status"]), "observed": r}
            if r.get("err"):
                res.append(("interim:request-failed", r["err"], rp))
                continue
            name = (b.get("cookie") or "").split("=")[0]
            sig = "interim" if b.get("interim") else "no-interim"
            if r["status"] != b["status"]:
                res.append(("status-changed-by-session-handler:" + sig, "the backend answered %s (after informational %s), the client received %s" % (b["status"], b.get("interim"), r["status"]), rp))
            if name and name in (r.get("client_set_cookie_names") or []):
                res.append(("backend-cookie-leaked-to-client:" + sig, "the backend's cookie %s reached the client" % name, rp))
            if not r.get("session_issued"):
                res.append(("no-session-cookie-issued:" + sig, "a cookie-less request was answered without a session cookie", rp))
            elif name and not any(c.startswith(name + "=") for c in (r.get("backend_saw_on_second_request") or [])):
                res.append(("session-cookies-lost-within-window:" + sig, "the cookie %s set by the backend is not sent back to it on the next request of the session" % name, rp))
        for r in obs["conc"]:
            if r.get("cookies_lost_at_first_use"):
                res.append(("concurrent:cookie-lost-at-first-use-of-session", "%d cookies set by the backend while several requests used a not-yet-cached session at once are missing from the session afterwards (%s)" % (
                    r["cookies_lost_at_first_use"], "; ".join(r.get("first_use_examples") or [])[:300]), r))
            if r["panics"] or r["mixed"] or r["missing"] or r["leaked"]:
                res.append(("concurrent:sessions-mixed-or-lost", "concurrent requests: %d panics, %d mixed, %d missing, %d leaked" % (r["panics"], r["mixed"], r["missing"], r["leaked"]), r))
        for h in obs["histories"]:
            for i, (rq, o) in enumerate(zip(h["reqs"], h["obs"])):
                rp = {"driver": "TestVerifC10: SessionHandler around a scripted backend", "history": h["index"], "cache_limit": h["limit"], "request_index": i, "requests_so_far": h["reqs"][:i + 1], "observed": o}
                if o.get("panic"):
                    res.append(("handler-panicked", "the session handler panicked (%s) on a request presenting %s; in the agent that ends the process and every session with it" % (
                        o["panic"][:120], "no session cookie" if rq["use"] == -1 else "a made-up session cookie value" if rq["use"] == -2 else "a session cookie"), rp))
                    continue
                names = []
                for sc in o["client_set"]:
                    names.append(sc.split("=", 1)[0])
                    if sc.split("=", 1)[0] == COOKIE:
                        attrs = [a.strip().lower() for a in sc.split(";")[1:]]
                        if o.get("expires_in_ms") is not None and abs(o["expires_in_ms"] - 3600000) > 1600:
                            res.append(("session-cookie-lifetime", "a session cookie issued with %d ms to live; the configured lifetime is 3600000 ms (counted from the moment it is issued)" % o["expires_in_ms"], rp))
                        if "httponly" not in attrs or "path=/" not in attrs or (("secure" in attrs) == h["disable_ssl"]) or not any(a.startswith("expires=") for a in attrs):
                            res.append(("session-cookie-attributes", "session cookie issued as %r (test override %s)" % (sc, h["disable_ssl"]), rp))
                if any(n != COOKIE for n in names):
                    res.append(("backend-cookie-leaked-to-client", "client received Set-Cookie for %r" % names, rp))
                if (rq["use"] == -1) != (COOKIE in names):
                    res.append(("session-cookie-issuance", "request presenting %s session cookie, session cookie issued: %s" % ("no" if rq["use"] == -1 else "a", COOKIE in names), rp))
                if o["session_cookie_at_backend"]:
                    res.append(("session-cookie-reached-backend", "the backend saw the session cookie", rp))
        res += self.spec_window_oracle(obs)
        return res

    def spec_window_oracle(self, obs):
        """Independent of the Coq model: an LRU over REAL sessions only, of the configured size; a request whose
        session is still in it must see exactly what an independent jar holds for all operations of that session."""
        res, queries, where = [], [], []
        for h in obs["histories"]:
            uses = self.model_uses(h)
            lru, ops, nxt = [], {}, 0          # most recent first; session -> op indices
            for i, (rq, u) in enumerate(zip(h["reqs"], uses)):
                if u == 0:
                    nxt += 1
                    sid = nxt
                    consulted = []
                else:
                    sid = u
                    consulted = list(ops.get(sid, [])) if sid in lru else None   # None: outside the window, anything goes
                    if sid not in lru:
                        ops[sid] = []
                if sid in lru:
                    lru.remove(sid)
                lru.insert(0, sid)
                for ev in lru[h["limit"]:]:
                    ops.pop(ev, None)
                del lru[h["limit"]:]
                if rq["set_cookies"] and sid in lru:
                    ops.setdefault(sid, []).append(i)
                if consulted is not None:
                    queries.append({"url": "https://%s%s" % (rq["host"], rq["path"]), "ops": [{"url": "https://%s%s" % (h["reqs"][k]["host"], h["reqs"][k]["path"]), "set_cookies": h["reqs"][k]["set_cookies"]} for k in consulted]})
                    where.append((h, i, consulted))
        if not queries:
            return res
        tool = C.ensure_tool("jareval", "./cmd/jareval")
        p = subprocess.run([tool], input=json.dumps(queries), capture_output=True, text=True, timeout=600)
        for (h, i, consulted), exp in zip(where, json.loads(p.stdout)):
            rq, o = h["reqs"][i], h["obs"][i]
            want = [list(e) for e in rq["extra"] if e[0] != COOKIE] + [list(e) for e in exp]
            got = [list(e) for e in o["backend_cookies"] if e[0] != COOKIE]
            if want != got:
                extra = [g for g in got if g not in want]
                sig = "foreign-or-stale-cookie-at-backend" if extra else "session-cookies-lost-within-window" if [w for w in want if w not in got] else "cookie-order-changed"
                res.append((sig, "history %d request %d (cache limit %d): the backend saw %r, a compliant jar holding the session's cookies gives %r" % (h["index"], i, h["limit"], got, want),
                            {"driver": "TestVerifC10", "history": h["index"], "cache_limit": h["limit"], "requests": h["reqs"][:i + 1], "observed_backend_cookies": got, "expected": want}))
        return res

    def model_check(self, ctx, obs):
        hs = obs["histories"]
        model, info = self._model(ctx, hs)
        if model is None:
            return [("cases_c10.v (model evaluation)", "coqc failed: " + info[-800:], {})], 0, {}
        queries, where = [], []
        mism = []
        for h, mh in zip(hs, model):
            uses = self.model_uses(h)
            for i, (rq, o, mo) in enumerate(zip(h["reqs"], h["obs"], mh)):
                issued, consulted = mo[0], mo[1:]
                if (issued != 0) != bool(o["issued_value"]):
                    mism.append(("SessionsCheck.eval_history", "history %d request %d: the model %s a session cookie, the implementation %s" % (h["index"], i, "issues" if issued else "does not issue", "did" if o["issued_value"] else "did not"),
                                 {"history": h["index"], "limit": h["limit"], "reqs": h["reqs"][:i + 1], "observed": o}))
                url = "https://%s%s" % (rq["host"], rq["path"])
                queries.append({"url": url, "ops": [{"url": "https://%s%s" % (h["reqs"][k]["host"], h["reqs"][k]["path"]), "set_cookies": h["reqs"][k]["set_cookies"]} for k in consulted]})
                where.append((h, i, consulted))
        tool = C.ensure_tool("jareval", "./cmd/jareval")
        p = subprocess.run([tool], input=json.dumps(queries), capture_output=True, text=True, timeout=600)
        expected = json.loads(p.stdout)
        for (h, i, consulted), exp in zip(where, expected):
            rq, o = h["reqs"][i], h["obs"][i]
            want = [list(e) for e in rq["extra"] if e[0] != COOKIE] + [list(e) for e in exp]
            got = [list(e) for e in o["backend_cookies"] if e[0] != COOKIE]
            if want != got:
                mism.append(("SessionsCheck.eval_history+jareval", "history %d request %d: the backend saw cookies %r; the client's own cookies followed by an independent jar fed with the model's operations %r give %r" % (h["index"], i, got, consulted, want),
                             {"history": h["index"], "limit": h["limit"], "reqs": h["reqs"][:i + 1], "observed_backend_cookies": got, "expected": want, "model_consulted_ops": consulted}))
        # the response writer at header level (Sessions/Writer.v) on the real chain's interim cases
        witems, wrows = [], []
        for r in obs.get("interim") or []:
            b = r["backend"]
            if r.get("err"):
                continue
            cookies = [b["cookie"]] if b.get("cookie") else []
            witems.append("sw_case false %s %d %s %d %d" % (C.llit(str(c) for c in (b.get("interim") or [])), b["status"], C.llit(coq_s(c) for c in cookies), r["status"], len(r.get("client_set_cookie_names") or [])))
            wrows.append(r)
        bad, wdt = C.eval_code_items(ctx.work, "cases_c10_writer", ["From Coq Require Import ZArith List Bool String.", "From IP Require Import Lib.Header Sessions.Writer Lib.Util.", "Import ListNotations.", "Open Scope Z_scope."], witems)
        if bad is None:
            return [("cases_c10_writer.v (model evaluation)", "coqc failed: " + wdt[-600:], {})], len(where), {}
        for idx, code in bad:
            mism.append(("Writer.sw_case", "through the real chain the client saw %s than the session response writer model gives" % ("another status" if code == 1 else "other Set-Cookie fields"), wrows[idx]))
        return mism, len(where) + len(witems), {"coqc_s": round(info, 2) if isinstance(info, float) else info, "requests": len(where), "writer_cases": len(witems)}

    def search(self, ctx, obs, broken):
        # a correspondence break whose observation shows cookies of another session or lost cookies is a concrete violation
        res = []
        for b in broken:
            c = b.get("case") or {}
            if b["kind"] == "correspondence" and "observed_backend_cookies" in c:
                got, want = c["observed_backend_cookies"], c["expected"]
                extra = [g for g in got if g not in want]
                lost = [w for w in want if w not in got]
                sig = "foreign-or-stale-cookie-at-backend" if extra else "session-cookies-lost-within-window" if lost else "cookie-order-changed"
                res.append((sig, b["detail"], c))
        return res

    def coverage(self, ctx, obs):
        hs = obs["histories"]
        hist = collections.Counter()
        for h in hs:
            hist["limit:%d" % h["limit"]] += 1
            for r in h["reqs"]:
                hist["use:%s" % ("none" if r["use"] == -1 else "forged" if r["use"] == -2 else "session")] += 1
                for sc in r["set_cookies"]:
                    hist["setcookie:%s" % ("delete" if "Max-Age=0" in sc or "1970" in sc else "path" if "Path=" in sc else "domain" if "Domain=" in sc else "plain")] += 1
        return {"evaluations": sum(len(h["reqs"]) for h in hs) + sum(r.get("requests", 0) for r in obs["conc"]),
                "distinct_nontrivial": len({C.case_hash(h["reqs"]) for h in hs if sum(1 for r in h["reqs"] if r["use"] >= 0) >= 1}),
                "rule": "case = one request history (which session cookie each request presents, host, path, the client's own cookies, the backend's Set-Cookie fields, cache limit); distinct by hash; non-trivial when at least one request re-uses a session",
                "samples": [{"limit": hs[0]["limit"], "reqs": hs[0]["reqs"][:3]}], "input_distribution": dict(hist), "concurrent": obs["conc"]}


PROP = C10()
