"""C19 - the App Engine proxy relays each request and its response intact."""
from lib import appeng as A
from lib import common as C
from lib.driver import Prop


class C19(Prop):
    pid = "C19"
    props_file = "Props/C19.v"
    model_targets = ["theories/App/AppCheck.vo", "theories/Codec/BlobSplit.vo"]
    technique = ("Coq proofs over all histories of a state-machine model of the app (datastore + memcache contents, waiting client handlers, API-call failures per step): provenance invariant by induction over histories, "
                 "relay exactness, completed-not-pending, no-hang from the regenerated channel capacity, response survival; list-level proof of blob split/join + "
                 "correspondence: the real app binary driven through scripted and seeded random histories (payloads around the 1,000,000-byte limits, every class of failing API call) against a fake App Engine API server, compared with the model step by step")
    level_text = ("C19_provenance (invariant, by induction over arbitrary histories) with C19_fetch_exact / C19_deliver_exact / C19_deliver_from_own_backend / C19_cached_exact: the payload an agent fetches under an ID is the one an end user issued under that ID and that was routed to the agent's backend; "
                  "the response a client receives was posted under its own request's ID by the authorised agent of the backend the request was routed to (request IDs unique); the only other answer is a GET served from the response cache with a 200 response previously delivered to the same user for the same URL. "
                  "C19_completed_never_listed: after an accepted post the request is never listed again. C19_no_hang (+ C19_senders_fit from the regenerated channel capacity): no call hangs for any combination of failing store operations; C19_hang_with_one_slot shows the one-slot channel hangs. "
                  "C19_accepted_response_reaches_client: after a 200 to the agent, whatever happens in between (cron job, other calls), the waiting client's next poll finds a response; C19_cron_deletes_fresh_response_without_start_time shows the defect this repairs. "
                  "C19_blob_roundtrip / _bounded / _inline_iff / _sizes: for every byte string, read(newBlob(bytes)) = bytes, no stored field exceeds the limit, and the part sizes are those observed. "
                  "PARTIAL: the 30 s time-outs (504) are observed on the real binary in one scenario, not proved; interleavings inside one handler are not modelled.")
    level_note = ("Trusted: Coq kernel, srcfacts (limits, channel capacity, concurrent senders, StartTime assignment), harness/aefake and harness/cmd/appengine. Modelled, not verified: the appengine SDK, datastore/memcache semantics, net/http request serialisation "
                  "(the harness checks that fetched bytes parse back to the method, URI, marker header and body the client sent and have the stored length), payloads as abstract tokens with their length.")
    partial_note = "time-outs (504 after 30 s) and intra-handler interleavings are observed/run, not proved"
    assumptions = ["request IDs (appengine.RequestID) are unique", "an agent does not post an empty response (the client handler treats an empty stored response as absent)",
                   "a waiting client handler polls every 100 ms; the harness waits for it as soon as a response is visible so that the order of deliveries equals the history order"]

    def harness(self, ctx):
        n = 60 if ctx.thorough else 12
        return A.run(ctx, n, 45, with_timeout=True, bigp=0.2 if ctx.thorough else 0.12, with_late=True)

    def oracle(self, ctx, obs):
        res = []
        for h in obs["histories"]:
            res += A.oracle_c19(h)
            # "posted under that ID by the authorised agent": what an agent without (or no longer with) the backend posts or fetches is refused
            res += [v for v in A.oracle_c17(h) if v[0].startswith("unauthorised-agent-call-accepted") or v[0].startswith("unauthorised-agent-call-wrote")]
        res += A.oracle_timeout(obs.get("timeout"))
        res += A.oracle_late(obs.get("late"))
        res += A.oracle_conc(obs.get("conc"))
        return res

    def model_check(self, ctx, obs):
        mism, n, info = A.model_check(ctx, obs["histories"])
        # the blob size arithmetic of the model on the lengths observed in the datastore
        sizes = []
        for h in obs["histories"]:
            for row in h:
                op, o = row["op"], row["obs"]
                if op["op"] == "ustart" and o.get("outcome") == "stored":
                    sizes.append((o["stored_len"], o["inlined"], list(o["part_lens"]), row))
                elif op["op"] == "arespond" and "resp_inlined" in o and o.get("status") == 200:
                    sizes.append((op["len"], o["resp_inlined"], list(o["resp_part_lens"]), row))
        items = ["(%s, %s, %s)" % (C.zlit(n_), C.zlit(i), C.llit(C.zlit(p) for p in ps)) for n_, i, ps, _ in sizes]
        body = "\n".join(["From Coq Require Import ZArith List Bool.", "From IP Require Import Lib.Util Gen.SrcFacts_App Codec.BlobSplit.", "Import ListNotations.", "Open Scope Z_scope.",
                          "Fixpoint leqb (a b : list Z) : bool := match a, b with [] , [] => true | x :: r, y :: t => (x =? y) && leqb r t | _, _ => false end.",
                          "Definition ok (c : Z * Z * list Z) : Z := let '(n, i, ps) := c in let '(i', ps') := split_sizes fieldByteLimit n in if (i =? i') && leqb ps ps' then 0 else 1.",
                          "Definition cases : list (Z * Z * list Z) := " + C.llit(items) + ".",
                          "Definition verif_result : list Z := Eval vm_compute in (map fst (nonzero_indices 0 (map ok cases)))."])
        txt, out, dt = C.eval_cases(ctx.work, "cases_blob", body)
        if txt is None:
            mism.append(("BlobSplit.split_sizes (model evaluation)", "coqc failed: " + out[-600:], {}))
        else:
            for idx in C.parse_z_list(txt):
                n_, i, ps, row = sizes[idx]
                mism.append(("BlobSplit.split_sizes", "a payload of %d bytes was stored as inline %d + parts %s, the model splits it differently" % (n_, i, ps),
                             {"operation": row["op"], "observed": row["obs"]}))
        info["blob_cases"] = len(sizes)
        return mism, n, info

    def coverage(self, ctx, obs):
        return A.coverage(obs)


PROP = C19()
