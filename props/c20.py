"""C20 - agent lifecycle: health gating, unhealthy exit, graceful shutdown."""
import collections
import os

from lib import common as C
from lib.driver import Prop

SLACK = 1000


class C20(Prop):
    pid = "C20"
    props_file = "Props/C20.v"
    model_targets = ["theories/Agent/Lifecycle.vo", "theories/Agent/LifecycleLTS.vo"]
    technique = "Coq proofs over all health-check histories and thresholds (gating; exit exactly at the first window of consecutive failures, characterised completely) and the graceful-shutdown decision table + black-box run of the real agent binary with a scripted health endpoint, a fake proxy logging list calls, and SIGINT/SIGTERM at chosen request phases"
    level_text = ("C20_gate / C20_gate_never prove that polling starts right after the first passing check and never before; C20_unhealthy proves for every history of checks and every threshold (minimum 1) that the agent terminates itself exactly at the first check at which the number of consecutive failures reaches the threshold "
                  "(a success resets it) and otherwise never; C20_graceful states the shutdown decisions (exit at the signal without the option, at t_sig + G with it; a request whose answer and upload complete before that is answered; no list call starts after the signal). "
                  "PARTIAL: exit times and process status are runtime behaviour. The real agent binary is run black-box (fresh process per scenario): late-starting backends, check patterns with thresholds 0-3, both signals at idle and at-backend phases (sent while a pending-list call is in flight; that call ends empty or with a 503), grace periods 0/1/2/3 s against backend latencies; "
                  "the health checks it made, the list calls it started, exit time and status and the uploaded response are compared with the model (1 s timing slack).")
    level_note = ("Trusted: Coq kernel, harness (harness/cmd/lifecycle, fake metadata server for the agent's credentials), OS signals and clock. Modelled, not verified: time.Ticker / time.Sleep, log.Fatal exits with status 1, os/signal. "
                  "The model works on check indices and abstract ticks; the 1 s health-check interval and the margins are harness choices.")
    partial_note = "timing margins and process exit are observed on the real binary, not proved"
    assumptions = ["health checks are performed one at a time, in order", "log.Fatal terminates the process"]

    def harness(self, ctx):
        agent = os.path.join(ctx.work, "agent")
        ok, log, dt = C.build_repo_binary("agent", agent)
        if not ok:
            raise RuntimeError("cannot build /repo/agent: " + log[-1500:])
        tool = C.ensure_tool("lifecycle", "./cmd/lifecycle")
        outp = os.path.join(ctx.work, "life.jsonl")
        rc, out, dt = C.run([tool, "-agent", agent, "-out", outp, "-tier", ctx.tier], timeout=1800, preexec_fn=C.default_signals)
        rows = C.read_jsonl(outp)
        if rc != 0 or not rows:
            raise RuntimeError("lifecycle harness did not run: rc=%s %s" % (rc, out[-1500:]))
        for r in rows:
            for k in ("health_times_ms", "health_results", "list_starts_ms", "list_returns_ms"):
                r[k] = r.get(k) or []
        return {"rows": rows}

    @staticmethod
    def expected_exit(sc, results):
        """python mirror of the model, used by the oracle: (number of checks after which the agent exits) or None"""
        thr = max(1, sc.get("threshold", 0))
        # wait phase: up to and including the first pass
        w = 0
        for r in results:
            w += 1
            if r:
                break
        else:
            return None, w
        bad = 0
        for i, r in enumerate(results[w:]):
            bad = 0 if r else bad + 1
            if bad >= thr:
                return w + i + 1, w
        return None, w

    def oracle(self, ctx, obs):
        res = []
        for r in obs["rows"]:
            sc = r["scenario"]
            rp = {"driver": "harness/cmd/lifecycle: real agent binary, scripted /healthz, fake proxy, signals", "scenario": sc, "observed": {k: v for k, v in r.items() if k not in ("scenario", "stderr_tail")}, "stderr_tail": r.get("stderr_tail", "")[-300:]}
            if r.get("err"):
                res.append(("scenario-error:" + sc["kind"], r["err"], rp))
                continue
            if sc["kind"] == "nohealth":
                if not r["list_starts_ms"] or r["list_starts_ms"][0] > 1000:
                    res.append(("no-polling-without-health-checks", "the agent did not start polling", rp))
            if sc["kind"] in ("gate", "unhealthy"):
                first_pass = next((t for t, ok in zip(r["health_times_ms"], r["health_results"]) if ok), None)
                if first_pass is None:
                    if r["list_starts_ms"]:
                        res.append(("polled-before-healthy", "pending-list calls were made although no health check had passed", rp))
                else:
                    if any(t < first_pass for t in r["list_starts_ms"]):
                        res.append(("polled-before-healthy", "a pending-list call started %d ms before the first passing health check" % (first_pass - min(r["list_starts_ms"])), rp))
                    if not r["list_starts_ms"] or min(r["list_starts_ms"]) > first_pass + SLACK:
                        res.append(("no-polling-after-healthy", "the agent did not start polling after the first passing check", rp))
                exp, w = self.expected_exit(sc, r["health_results"])
                exited = r["exit_ms"] >= 0
                if exp is None and exited:
                    res.append(("unhealthy-exit:unexpected", "the agent terminated after %d checks although no %d consecutive checks failed" % (len(r["health_results"]), max(1, sc.get("threshold", 0))), rp))
                if exp is not None:
                    if not exited:
                        res.append(("unhealthy-exit:missing", "the agent kept running after %d consecutive failed checks (threshold %d)" % (max(1, sc.get("threshold", 0)), sc.get("threshold", 0)), rp))
                    elif len(r["health_results"]) != exp or r["exit_code"] == 0 or r["exit_ms"] > r["health_times_ms"][exp - 1] + SLACK:
                        res.append(("unhealthy-exit:wrong-time", "the agent terminated after %d checks (status %d), the first window of %d consecutive failures ends at check %d" % (len(r["health_results"]), r["exit_code"], max(1, sc.get("threshold", 0)), exp), rp))
            if sc["kind"] == "graceful":
                g, sig = sc["grace_ms"], r["signal_ms"]
                if r["exit_ms"] < 0:
                    res.append(("graceful:no-exit", "the agent was still running %d ms after the signal (grace %d ms)" % (g + 3000, g), rp))
                    continue
                if sc.get("late_listed") and g > 0 and (r.get("late_fetched_ms", -1) < 0 or r.get("late_backend_calls") != 1 or not r.get("late_upload_ok")):
                    res.append(("graceful:request-listed-by-the-poll-in-flight-dropped", "the pending-list call in flight at the signal was answered with a request ID %d ms after the signal; with %d ms of grace that request was fetched: %s, reached the backend %s time(s), answered in full: %s" % (
                        150, g, r.get("late_fetched_ms", -1) >= 0, r.get("late_backend_calls"), r.get("late_upload_ok")), rp))
                if g == 0 and r["exit_ms"] > sig + SLACK:
                    res.append(("graceful:late-exit-without-option", "exit %d ms after the signal although no grace period is configured" % (r["exit_ms"] - sig), rp))
                if sc.get("phase") == "health-wait":
                    # nothing is in flight before the first passing check: the agent may stop at once, and must be gone when the period ends
                    if not (sig <= r["exit_ms"] <= sig + g + SLACK):
                        res.append(("graceful:signal-ignored-while-waiting-for-health", "signal sent while the agent was waiting for the backend to become healthy: exit %d ms after the signal (grace %d ms)" % (r["exit_ms"] - sig, g), rp))
                    if any(t > sig + 120 for t in r["list_starts_ms"]):
                        res.append(("graceful:polled-after-signal", "a pending-list call started %d ms after the signal" % (max(r["list_starts_ms"]) - sig), rp))
                    continue
                if g > 0 and not (sig + g - 150 <= r["exit_ms"] <= sig + g + SLACK):
                    res.append(("graceful:exit-time", "exit %d ms after the signal, grace period %d ms" % (r["exit_ms"] - sig, g), rp))
                # the signal is sent 100-250 ms into a pending-list call: that call may finish, no other may start
                if g > 0 and any(t > sig + 120 for t in r["list_starts_ms"]):
                    res.append(("graceful:polled-after-signal", "a pending-list call started %d ms after the signal" % (max(r["list_starts_ms"]) - sig), rp))
                if g > 0 and sc["phase"] == "at-backend" and r["at_backend_ms"] >= 0 and r["at_backend_ms"] + sc["backend_ms"] + 400 < sig + g and not r["upload_ok"]:
                    res.append(("graceful:request-not-answered", "a request whose backend finished %d ms before the end of the grace period was not answered in full" % (sig + g - r["at_backend_ms"] - sc["backend_ms"]), rp))
        return res

    def model_check(self, ctx, obs):
        items, rows = [], []
        for r in obs["rows"]:
            sc = r["scenario"]
            if sc["kind"] not in ("gate", "unhealthy") or r.get("err"):
                continue
            checks = C.llit(C.blit(b) for b in r["health_results"])
            # observed: number of checks made in the wait phase before the first list call; exit index (0 = still running)
            first_pass = next((i + 1 for i, ok in enumerate(r["health_results"]) if ok), 0)
            polled = 1 if r["list_starts_ms"] else 0
            exit_idx = len(r["health_results"]) if r["exit_ms"] >= 0 else 0
            items.append("lifecycle_case_ok %d %s %d %d" % (sc.get("threshold", 0), checks, polled, exit_idx))
            rows.append(r)
        body = "\n".join(["From Coq Require Import ZArith List Bool Arith.", "From IP Require Import Agent.Lifecycle Lib.Util.", "Import ListNotations.",
                          "(* observed: did the agent poll at all; after how many checks did it exit (0 = it did not) *)",
                          "Definition lifecycle_case_ok (t : nat) (checks : list bool) (polled exit_idx : nat) : bool :=",
                          "  match wait_healthy checks with",
                          "  | None => (polled =? 0) && (exit_idx =? 0)",
                          "  | Some w => (polled =? 1) && match health_exit t (skipn w checks) with Some n => exit_idx =? w + n | None => exit_idx =? 0 end",
                          "  end.",
                          "Definition oks : list bool := " + C.llit(items) + ".",
                          "Definition verif_result : list Z := Eval vm_compute in (bad_indices (fun b : bool => b) 0%Z oks)."])
        txt, out, dt = C.eval_cases(ctx.work, "cases_c20", body)
        if txt is None:
            return [("cases_c20.v (model evaluation)", "coqc failed: " + out[-800:], {})], 0, {}
        lts_mism, lts_n, lts_info = self.lts_check(ctx, obs)
        mism = lts_mism + [("Lifecycle.wait_healthy/health_exit", "polling / self-termination of the agent differs from the model on the observed check results", {"scenario": rows[i]["scenario"], "health_results": rows[i]["health_results"], "exit_ms": rows[i]["exit_ms"], "list_starts_ms": rows[i]["list_starts_ms"][:3]}) for i in C.parse_z_list(txt)]
        return mism, len(items) + lts_n, {"coqc_s": round(dt, 2), "cases": len(items), "lts": lts_info}

    @staticmethod
    def lts_trace(r):
        """One observed run as a timed trace of Agent/LifecycleLTS.v: (cfg, [(time, label)], expected exit code or None)."""
        sc = r["scenario"]
        hc = bool(sc.get("checks"))
        sig = r.get("signal_ms", -1)
        exit_ms, code = r["exit_ms"], r["exit_code"]
        g = sc.get("grace_ms", 0)
        ev = []  # (time, priority, label)
        for t, ok in zip(r["health_times_ms"], r["health_results"]):
            ev.append((t, 0, 0, "Check %s" % C.blit(ok)))
        registered = (not hc) or any(ok and t <= sig for t, ok in zip(r["health_times_ms"], r["health_results"]))
        carrier = None
        if r.get("at_backend_ms", -1) >= 0:
            c = [i for i, t in enumerate(r["list_returns_ms"]) if t <= r["at_backend_ms"]]
            carrier = c[-1] if c else None
        # list calls: start i, return i, start i+1, ... in this order also within one millisecond.  The fake proxy sees a call a
        # little after the loop decided to make it: a start observed within 120 ms after the signal (and what precedes it) is
        # placed at the signal (the same tolerance as in the oracle)
        starts, rets = r["list_starts_ms"], r["list_returns_ms"]
        late = [i for i, t in enumerate(starts) if sig >= 0 and sig < t <= sig + 120]
        clamp_upto = 2 * late[-1] if late else -1
        for i, t in enumerate(starts):
            ev.append((min(t, sig) if 2 * i <= clamp_upto else t, 1, 2 * i, "ListStart"))
        for i, t in enumerate(rets):
            ev.append((min(t, sig) if 2 * i + 1 <= clamp_upto else t, 1, 2 * i + 1, "ListReturn [1]" if i == carrier else "ListReturn []"))
        if carrier is not None:
            ev.append((r["at_backend_ms"], 3, 0, "Work 1"))
            if r.get("upload_ok") and r.get("upload_done_ms", -1) >= 0:
                ev.append((r["upload_done_ms"], 3, 1, "Work 1"))
                ev.append((r["upload_done_ms"], 3, 2, "Work 1"))
        cause = None
        if sig >= 0:
            ev.append((sig, 4, 0, "Sig"))
            if registered:
                ev.append((sig, 5, 0, "SigTake"))
                ev.append((sig, 6, 0, "MainWake"))
            if sc.get("second_signal"):
                t2 = sig + sc.get("second_signal_after_ms", 0)
                if exit_ms < 0 or t2 < exit_ms:
                    ev.append((t2, 4, 0, "Sig"))
        expected = None
        if exit_ms >= 0:
            expected = {0: 0, 1: 1, -1: 2}.get(code, 9)
            if sig >= 0 and registered and g > 0 and code == 1:
                ev.append((exit_ms, 9, 0, "Deadline"))
                cause = (exit_ms, 9)
            elif sig >= 0 and code in (0, -1):
                cause = (sig, 6 if registered else 4)
            elif code == 1 and r["health_times_ms"]:
                cause = (r["health_times_ms"][-1], 0)
            else:
                cause = (exit_ms, 9)
        ev.sort(key=lambda e: (e[0], e[1], e[2]))
        if cause is not None:
            # what the harness logs after the step that ended the process (connections torn down) is not a step of the process
            ev = [e for e in ev if (e[0], e[1]) <= cause]
        cfg = "{| hc_enabled := %s; thr := %d; grace := Z.to_nat %d; sig_cap := sigcap |}" % (C.blit(hc), sc.get("threshold", 0), g)
        return cfg, [(e[0], e[3]) for e in ev], expected

    def lts_check(self, ctx, obs):
        rows, items = [], []
        for r in obs["rows"]:
            if r.get("err"):
                continue
            cfg, ev, expected = self.lts_trace(r)
            labels, now = [], 0
            for t, l in ev:
                if t > now:
                    labels.append("Tick (Z.to_nat %d)" % (t - now))
                    now = t
                labels.append(l)
            items.append("check_case (%s) %s %s" % (cfg, C.llit(labels), "None" if expected is None else "(Some %d)" % expected))
            rows.append((r, ev, expected, labels))
        body = "\n".join(["From Coq Require Import ZArith List Bool Arith.", "From IP Require Import Gen.SrcFacts_Agent Agent.LifecycleLTS Lib.Util.", "Import ListNotations.",
                          "Definition sigcap : nat := Z.to_nat (hd 1%Z shutdownChanCaps).",
                          "(* 0 = the observed run is a trace of the LTS ending with the observed exit status; 1000 + i = label i is not enabled; 2 = wrong exit status *)",
                          "Definition check_case (c : cfg) (tr : list label) (code : option nat) : Z :=",
                          "  match check_trace c tr code with 0%Z => 0%Z | 1%Z => (1000 + Z.of_nat (match first_disabled c (init c) tr 0 with Some i => i | None => 0 end))%Z | z => z end.",
                          "Definition codes : list Z := " + C.llit(items) + ".",
                          "Definition verif_result : list Z := Eval vm_compute in (map (fun p => fst p * 100000 + snd p)%Z (nonzero_indices 0%Z codes))."])
        txt, out, dt = C.eval_cases(ctx.work, "cases_c20_lts", body)
        if txt is None:
            return [("cases_c20_lts.v (model evaluation)", "coqc failed: " + out[-800:], {})], 0, {}
        mism = []
        for v in C.parse_z_list(txt):
            idx, code = v // 100000, v % 100000
            r, ev, expected, labels = rows[idx]
            what = "ends with exit status %s, the trace of the model does not" % expected if code == 2 else "label %d (%s) is not enabled in the model" % (code - 1000, labels[code - 1000] if 0 <= code - 1000 < len(labels) else "?")
            mism.append(("LifecycleLTS.check_trace", "scenario %s: the observed run is not a trace of the life-cycle LTS: %s" % (r["scenario"]["name"], what),
                         {"scenario": r["scenario"], "timed_labels": ev[:60], "expected_exit": expected, "observed": {k: v for k, v in r.items() if k not in ("scenario", "stderr_tail")}}))
        return mism, len(items), {"coqc_s": round(dt, 2), "traces": len(items), "labels": sum(len(x[3]) for x in rows)}

    def coverage(self, ctx, obs):
        hist = collections.Counter(r["scenario"]["kind"] for r in obs["rows"])
        return {"evaluations": len(obs["rows"]), "distinct_nontrivial": len({r["scenario"]["name"] for r in obs["rows"] if r["scenario"]["kind"] != "nohealth"}),
                "rule": "case = one scenario with a fresh agent process (health-check script + threshold, or signal x phase x grace period x backend latency); every scenario except the trivial 'no health checks' one is non-trivial",
                "samples": [obs["rows"][0]["scenario"], obs["rows"][-1]["scenario"]], "input_distribution": dict(hist)}


PROP = C20()
