"""C17 - the App Engine proxy enforces who may act as agent, user and admin."""
from lib import appeng as A
from lib import common as C
from lib.driver import Prop


class C17(Prop):
    pid = "C17"
    props_file = "Props/C17.v"
    model_targets = ["theories/App/AppCheck.vo"]
    technique = ("Coq proofs, for every state and every call, over a state-machine model of the app's handlers and its Store (datastore + memcache contents, API-call failures as a parameter of each step): "
                 "rejection, frame and non-interference theorems for the agent endpoints, routing and administrator gates + regenerated source facts (guard-first handlers, yaml login constraints) + "
                 "correspondence: the real app binary (three services) is driven through scripted and seeded random histories against a fake App Engine API server and must agree with the model step by step on answers and on the set of changed datastore entities")
    level_text = ("C17_agent_rejected / C17_agent_gate: in every state, a list, fetch or respond call by anyone other than the backend user registered for the backend ID it names (absent, wrong identity, unknown or empty ID, failing identity or record lookup) "
                  "is answered 401 and leaves the whole store unchanged, and a call not answered 401 comes from that backend user. C17_agent_frame: an accepted call leaves alone every other backend's stored and cached requests, cached responses and tracker, all backend records, "
                  "the GET cache and waiting clients, and writes a response only under the ID of a request that exists under its own backend. C17_agent_learns_nothing_else: its answer is a function of its backend's record and own requests only (two-state non-interference). "
                  "C17_user_routing / C17_user_anonymous: a request is stored only under a backend whose end user is the caller or allUsers; no identity, no routing. C17_admin_gate / C17_cron_gate / C17_backends_only_by_admin: non-administrators get 403 with no change, "
                  "and only administrator calls change backend records. C17_source_guards ties the handler structure and the yaml login constraints regenerated from the source. "
                  "The real app is run on the access matrix (identities x backends x requests x endpoints, admin identities x API calls) and on random histories with API failures; every answer and every set of changed entities must equal the model's, and the property is also evaluated directly on the answers.")
    level_note = ("Trusted: Coq kernel, srcfacts, the harness: harness/aefake (fake App Engine API server: datastore Put/Get/Delete/RunQuery/transactions, memcache, OAuth user service; protobufs copied from the SDK) and harness/cmd/appengine "
                  "(plays the App Engine front end: identity headers, `login:` constraints read from app/*.yaml). Modelled, not verified: the appengine SDK, datastore query semantics (equality filters, key order), memcache as a reliable map, "
                  "payloads as abstract tokens (byte-level split in C19). One model step per call: the app's calls are atomic at the granularity of single API calls; interleavings inside one handler are not explored.")
    assumptions = ["App Engine delivers the caller's identity in the X-AppEngine-* headers and the OAuth user service, and enforces `login: admin|required` of app/*.yaml before the app sees the request",
                   "request IDs (appengine.RequestID) are unique", "the fake API server stands for datastore/memcache/user services"]

    def harness(self, ctx):
        n = 60 if ctx.thorough else 14
        return A.run(ctx, n, 45, with_timeout=False)

    def oracle(self, ctx, obs):
        res = []
        for h in obs["histories"]:
            res += A.oracle_c17(h)
        res += A.oracle_denials(obs["histories"])
        return res

    def model_check(self, ctx, obs):
        return A.model_check(ctx, obs["histories"])

    def coverage(self, ctx, obs):
        return A.coverage(obs)


PROP = C17()
