"""C15 - the TCP bridge carries byte streams intact in both directions."""
import collections
import os

from lib import common as C
from lib.driver import Prop

OVERLAY = {"utils/tcpbridge/connection/zz_verif_common_test.go": "tcpbridge_connection/verif_common_test.go",
           "utils/tcpbridge/connection/zz_verif_bridge_test.go": "tcpbridge_connection/verif_bridge_test.go"}


def build_bridge(ctx):
    fb, bb = os.path.join(ctx.work, "bridge-frontend"), os.path.join(ctx.work, "bridge-backend")
    for pkg, out in (("utils/tcpbridge/tcp-bridge-frontend", fb), ("utils/tcpbridge/tcp-bridge-backend", bb)):
        ok, log, dt = C.build_repo_binary(pkg, out)
        if not ok:
            raise RuntimeError("cannot build %s: %s" % (pkg, log[-1500:]))
    return {"VERIF_BRIDGE_FRONTEND_BIN": fb, "VERIF_BRIDGE_BACKEND_BIN": bb}


def hexbytes(h):
    return [int(h[i:i + 2], 16) for i in range(0, len(h), 2)]


class C15(Prop):
    pid = "C15"
    props_file = "Props/C15.v"
    model_targets = ["theories/TcpBridge/BridgeCheck.vo"]
    technique = "Coq proofs of the hex round trip (all byte values, any length) and of stream reassembly for every write segmentation and read-buffer sequence + differential run of WebsocketNetConn against a raw websocket peer and full-duplex hash comparison through the two real bridge binaries"
    level_text = ("C15_hex_roundtrip and C15_reassembly prove for every sequence of writes (empty ones, all 256 byte values, any sizes), every interleaving with non-text messages and every sequence of read-buffer sizes >= 1 that the reads return exactly the written bytes in order, "
                  "nothing lost, duplicated or reordered; C15_streams_independent proves the same for any number of streams (connections x directions) whose writes and reads interleave arbitrarily: each stream's reads are a prefix of that stream's writes and of nothing else; C15_passthrough characterises the routing decision (path regenerated from the source). The real Read/Write are run on scripted frame lists (upper/lower-case hex, empty, binary and malformed messages) with scripted buffer sizes and "
                  "must equal the model result by result; the two bridge binaries carry concurrent full-duplex streams with random write sizes and read buffers between a TCP client and an echoing TCP server, compared by hash.")
    level_note = ("Trusted: Coq kernel, srcfacts (StreamingPath), harness. Modelled, not verified: gorilla/websocket (messages arrive whole and in order), encoding/hex (modelled exactly, round trip proved for the model), TCP. "
                  "The two directions are independent instances of the model because the code shares no state between them (bufferedMsg is per connection and only touched by Read).")
    assumptions = ["websocket messages are delivered whole, once and in order by gorilla/websocket", "the read buffer passed to Read is never empty (io.Copy uses 32 KiB buffers)"]

    def harness(self, ctx):
        env = build_bridge(ctx)
        obs = {}
        for name in ("C15Conn", "C15Bridge", "C15Route", "C15Idle", "C15WriteThenClose", "C15Passthrough"):
            rc, out, p, dt = C.go_test_overlay(ctx.work, "./utils/tcpbridge/connection/", "TestVerif%s$" % name, OVERLAY, name + ".jsonl", ctx.seed, ctx.tier, timeout=1800, extra_env=env)
            rows = C.read_jsonl(p)
            if rc != 0 or not rows:
                raise RuntimeError("C15 harness %s did not run: rc=%s\n%s" % (name, rc, out[-2000:]))
            obs[name] = rows
        return obs

    def oracle(self, ctx, obs):
        res = []
        for r in obs.get("C15Passthrough", []):
            rp = {"driver": "TestVerifC15Passthrough: raw HTTP request -> tcp-bridge-backend binary -> raw TCP server on the backend port", "observed": r}
            want_line = "%s %s HTTP/1.1" % (r["method"], r["target"])
            if r.get("err") or not r.get("reached_backend"):
                res.append(("passthrough:not-delivered", "%s %r did not reach the backend port (%s)" % (r["method"], r["target"][:80], r.get("err") or "status %s" % r.get("status")), rp))
                continue
            if r.get("seen_line") != want_line:
                what = "query" if r["seen_line"].split("?")[0] == want_line.split("?")[0] else "method/path"
                res.append(("passthrough:request-target-changed:" + what, "the backend port saw %r for %r" % (r.get("seen_line")[:200], want_line[:200]), rp))
            if r.get("seen_host") != "bridged.example:8443":
                res.append(("passthrough:host-changed", "the backend port saw Host %r" % r.get("seen_host"), rp))
            if r.get("seen_custom") != ["one", "two"] or r.get("seen_cookie") != "a=1; b=2":
                res.append(("passthrough:header-changed", "the backend port saw X-Custom %r, Cookie %r" % (r.get("seen_custom"), r.get("seen_cookie")), rp))
            if r.get("seen_body_len") != r["body_len"] or r.get("seen_body_sum") != r["body_sum"]:
                res.append(("passthrough:body-changed", "a body of %d bytes arrived as %s bytes" % (r["body_len"], r.get("seen_body_len")), rp))
        for r in obs.get("C15Route", []):
            path_only = r["path"].split("?")[0]
            bridge = r["upgrade"] and path_only == r["streaming_path"]
            rp = {"driver": "TestVerifC15Route: connection.Handler with a recording passthrough handler and a TCP server", "observed": r}
            passed = [x for x in r.get("passthrough_saw") or [] if ("marker=" + r["marker"]) in x]
            if bridge:
                if passed or r.get("tcp_connections", 0) < 1 or r.get("handshake") != "accepted":
                    res.append(("route:bridge-stream-not-bridged", "a websocket upgrade on the streaming path was not bridged to the TCP backend", rp))
            else:
                if not passed or r.get("tcp_connections", 0) != 0 or r.get("handshake") == "accepted":
                    res.append(("route:not-passed-through", "%s %r was not handed to the pass-through handler untouched (bridged: %s TCP connection(s), handshake %s)" % (
                        "websocket upgrade on" if r["upgrade"] else "plain request to", r["path"], r.get("tcp_connections"), r.get("handshake")), rp))
                elif len(passed) != 1 or r["path"] not in passed[0]:
                    res.append(("route:passthrough-altered", "the pass-through handler saw %s for %r" % (passed, r["path"]), rp))
        for r in obs.get("C15WriteThenClose", []):
            rp = {"driver": "TestVerifC15WriteThenClose: TCP client <-> tcp-bridge-frontend <=ws=> tcp-bridge-backend <-> TCP server; the writer writes 4 MiB and closes at once, the reader is slow", "observed": r}
            if r.get("err"):
                res.append(("bridge-connect-error", r["err"], rp))
            elif r.get("received") != r.get("sent") or r.get("received_sum") != r.get("sent_sum") or r.get("read_err"):
                res.append(("write-then-close:stream-cut-or-changed", "%s: the reader got %s of %s bytes (%s) although the writer had written everything before closing" % (
                    r["direction"], r.get("received"), r.get("sent"), r.get("read_err") or ("content differs" if r.get("received") == r.get("sent") else "clean end of stream")), rp))
        for r in obs.get("C15Idle", []):
            rp = {"driver": "TestVerifC15Idle: TCP client <-> tcp-bridge-frontend <=ws=> tcp-bridge-backend <-> TCP server, one direction silent for %s ms" % r.get("gap_ms"), "observed": r}
            if r.get("err"):
                res.append(("bridge-connect-error", r["err"], rp))
            elif r.get("received") != r.get("expected"):
                res.append(("idle:bytes-after-silence-lost", "scenario %s: the client received %r of %r (%s after %s ms) although neither peer had closed" % (
                    r["scenario"], r.get("received"), r.get("expected"), r.get("client_err", "no error"), r.get("client_err_after_ms")), rp))
        for r in obs["C15Conn"]:
            if r["kind"] == "read":
                exp = b""
                bad = False
                for f in r["frames"] or []:
                    if f["type"] != 1:
                        continue
                    try:
                        exp += bytes.fromhex(f["data"])
                    except ValueError:
                        bad = True
                        break
                got = b"".join(bytes.fromhex(x["data"]) for x in (r["reads"] or []))
                rp = {"driver": "TestVerifC15Conn: scripted websocket frames -> WebsocketNetConn.Read with scripted buffer sizes", "frames": r["frames"], "reads": r["reads"]}
                if not exp.startswith(got):
                    res.append(("read-stream-corrupted", "bytes returned by Read are not a prefix of the bytes sent (%d returned)" % len(got), rp))
                for x in r["reads"] or []:
                    if not x.get("err") and x["n"] == 0:
                        res.append(("read-returned-zero", "Read returned 0 bytes without error", rp))
            else:
                frames = r["frames"] or []
                if len(frames) != len(r["writes"]) or any(f["type"] != 1 or f["data"].lower() != w for f, w in zip(frames, r["writes"])):
                    res.append(("write-framing-changed", "Write did not produce one text message with the hex encoding per call", {"writes": [w[:40] for w in r["writes"]], "frames": [(f["type"], f["data"][:40]) for f in frames]}))
        for r in obs["C15Bridge"]:
            if r.get("kind") != "bridge":
                continue
            if r.get("err") and not r.get("equal"):
                res.append(("bridge-stream-error", "bridged connection %s failed: %s" % (r.get("conn"), r["err"]), r))
            elif not r.get("equal"):
                res.append(("bridge-stream-corrupted", "bytes echoed through the bridge differ from the bytes sent (%s of %s bytes)" % (r.get("echoed"), r.get("sent")), r))
        return res

    def model_check(self, ctx, obs):
        items, rows = [], []
        for r in obs["C15Conn"]:
            if r["kind"] == "read":
                frames = C.llit(("FText %s" % C.llit(str(ord(c)) for c in f["data"])) if f["type"] == 1 else "FOther" for f in (r["frames"] or []))
                reads = r["reads"] or []
                sizes = C.llit("(zn %d)" % x["size"] for x in reads)
                ob = C.llit("(%d, %s)" % ({"": 0, "decode": 1, "closed": 2}.get(x.get("err", ""), 3), C.llit(str(b) for b in hexbytes(x["data"]))) for x in reads)
                if sum(len(f["data"]) for f in (r["frames"] or [])) > 2600:
                    continue   # very long frames are covered by the oracle and the bridge run; keep the Coq file small
                items.append("read_case_ok %s %s %s" % (frames, sizes, ob))
                rows.append(r)
            else:
                for w, f in zip(r["writes"], r["frames"] or []):
                    if len(w) > 600:
                        continue
                    items.append("write_case_ok %s %s" % (C.llit(str(b) for b in hexbytes(w)), C.llit(str(ord(c)) for c in f["data"])))
                    rows.append({"write": w[:80], "frame": f["data"][:80]})
        # the routing decision of Handler against the model (streaming path regenerated from the source)
        for r in obs.get("C15Route", []):
            bridged = r.get("handshake") == "accepted" and r.get("tcp_connections", 0) >= 1
            items.append("Bool.eqb (routes_to_bridge (hd EmptyString streamingPath) %s %s) %s" % (C.blit(r["upgrade"]), C.slit(r["path"].split("?")[0]), C.blit(bridged)))
            rows.append(r)
        body = "\n".join(["From Coq Require Import List Arith Bool ZArith String.", "From IP Require Import Gen.SrcFacts_TcpBridge TcpBridge.Conn TcpBridge.BridgeCheck Lib.Util.", "Import ListNotations.", "Open Scope list_scope.",
                          "Definition zn (z : Z) : nat := Z.to_nat z.", "Definition oks : list bool := " + C.llit(items) + ".",
                          "Definition verif_result : list Z := Eval vm_compute in (bad_indices (fun b : bool => b) 0%Z oks)."])
        txt, out, dt = C.eval_cases(ctx.work, "cases_c15", body)
        if txt is None:
            return [("cases_c15.v (model evaluation)", "coqc failed: " + out[-600:], {})], 0, {}
        mism = [("BridgeCheck.read_case_ok/write_case_ok/routes_to_bridge", "Read/Write results or the routing decision differ from the model's", rows[i]) for i in C.parse_z_list(txt)]
        return mism, len(items), {"coqc_s": round(dt, 2), "cases": len(items)}

    def coverage(self, ctx, obs):
        reads = [r for r in obs["C15Conn"] if r["kind"] == "read"]
        hist = collections.Counter()
        for r in reads:
            for f in r["frames"] or []:
                hist["frame:%s" % ("binary" if f["type"] != 1 else "empty" if not f["data"] else "text")] += 1
            for x in r["reads"] or []:
                hist["readbuf:%d" % x["size"]] += 1
                if x.get("err"):
                    hist["end:" + x["err"]] += 1
        br = [r for r in obs["C15Bridge"] if r.get("kind") == "bridge"]
        distinct = {C.case_hash([r["frames"], [x["size"] for x in r["reads"] or []]]) for r in reads if len(r["frames"] or []) >= 2}
        return {"evaluations": len(reads) + len(br), "distinct_nontrivial": len(distinct) + len(br),
                "rule": "case = (frame list, read-buffer sizes), distinct by hash, non-trivial with at least two frames; plus one case per concurrently bridged full-duplex connection (random write sizes, random read buffer)",
                "samples": [{"frames": [(f["type"], f["data"][:24]) for f in reads[0]["frames"]], "reads": [(x["size"], x["n"]) for x in reads[0]["reads"][:6]]}, br[0] if br else {}],
                "input_distribution": dict(hist), "bridged_bytes_total": sum(r.get("sent", 0) for r in br), "bridged_connections": len(br)}


PROP = C15()
