"""C04 - each client request is forwarded to the backend at most once."""
import collections
import os

from lib import common as C
from lib import servsched
from lib.driver import Prop

AGENT_OVERLAY = {"agent/zz_verif_common_test.go": "agent/verif_common_test.go",
                 "agent/zz_verif_fakeproxy_test.go": "agent/verif_fakeproxy_test.go",
                 "agent/zz_verif_c04_test.go": "agent/verif_c04_test.go"}
KIND = {0: "FOk", 1: "FNetErr", 2: "F5xx", 3: "FStatus", 4: "FGarbage", 5: "FGarbage"}


def window_ok(lists, k=1000):
    """python mirror of DedupCheck.window_okb: whenever an ID is listed again, fewer than k other distinct IDs were listed since its last listing"""
    rec = []
    for l in lists:
        for x in l:
            if x in rec:
                if rec.index(x) >= k:
                    return False
                rec.remove(x)
            rec.insert(0, x)
    return True


class C04(Prop):
    pid = "C04"
    props_file = "Props/C04.v"
    model_targets = ["theories/Agent/DedupCheck.vo", "theories/Server/ProxyCheck.vo"]
    technique = "Coq refinement proof (bounded LRU = K-prefix of the recency list, all histories) + LTS invariants for worker and proxy hand-off + regenerated constants + differential run of pollForNewRequests and of newProxy() with concurrent pollers against the models"
    level_text = ("C04_lru_is_recency_prefix and C04_at_most_once prove for every history of pending-list replies inside the 1000-ID window (any repeats, permutations, groupings) that a worker is spawned exactly at the "
                  "first listing of each ID; C04_worker_once proves at most one backend invocation per worker, only after a successful fetch, within 3 attempts; C04_handoff proves that the proxy hands each ID to exactly one "
                  "pending-list reply for every schedule and any number of pollers. requestCacheLimit and the retry count are regenerated from the source; the real poll loop and the real proxy are run on scripted histories "
                  "(including 1000 distinct IDs then a re-listing) and on concurrent-poller schedules and must agree with the models.")
    level_note = ("Trusted: Coq kernel, srcfacts, harness. Modelled, not verified: groupcache/lru (60 lines, modelled exactly by Lib/Lru.v), Go channel rendezvous of the proxy's unbuffered ID channel "
                  "(one Hand label per receive), net/http. The dedup window is formalised as window_ok 1000 (C04_few_distinct_ids: at most 1000 distinct IDs implies it); histories outside it are recorded, not compared.")
    assumptions = [
        "groupcache/lru.Cache is modelled by Lib/Lru.v (Get moves to front, Add evicts the oldest beyond MaxEntries)",
        "the outcome of each fetch attempt is an input (script); http.Client.Do errors and 5xx are retryable, everything else is final, as in getRequestWithRetries",
        "the proxy's ID hand-off is a rendezvous on an unbuffered channel (capacity regenerated from the source)",
    ]

    def harness(self, ctx):
        rc, out, p, dt = C.go_test_overlay(ctx.work, "./agent/", "TestVerifC04Dedup", AGENT_OVERLAY, "dedup.jsonl", ctx.seed, ctx.tier, timeout=900)
        rows = [r for r in C.read_jsonl(p) if r.get("kind") == "history"]
        if rc != 0 or not rows:
            raise RuntimeError("C04 agent harness did not run: rc=%s\n%s" % (rc, out[-2000:]))
        for h in rows:
            h["lists"] = [l or [] for l in (h.get("lists") or [])]
            for k in ("fetch_scripts", "invocations", "uploads", "fetch_attempts"):
                h[k] = h.get(k) or {}
        # the proxy binary with a poll that has been waiting for 16.5 s when the request arrives (beside the other runs: it takes that long)
        import threading
        from props.c02 import build_server
        idle = {}
        srv_bin = build_server(ctx)
        th = threading.Thread(target=lambda: idle.update(r=servsched.idle_poll_run(srv_bin)))
        th.start()
        sv = servsched.run(ctx, race=False)
        # the real agent process told to shut down gracefully while a pending-list call is in flight: the IDs that call returns
        # were handed to this agent by the proxy and to nobody else (the lifecycle driver of C20, these scenarios only)
        agent = os.path.join(ctx.work, "agent")
        ok, log, dt = C.build_repo_binary("agent", agent)
        if not ok:
            raise RuntimeError("cannot build /repo/agent: " + log[-1500:])
        tool = C.ensure_tool("lifecycle", "./cmd/lifecycle")
        outp = os.path.join(ctx.work, "life_late.jsonl")
        if os.path.exists(outp):
            os.remove(outp)
        rc, out, dt = C.run([tool, "-agent", agent, "-out", outp, "-tier", ctx.tier, "-only", "poll-in-flight-lists-a-request"], timeout=600, preexec_fn=C.default_signals)
        late = C.read_jsonl(outp)
        if rc != 0 or not late:
            raise RuntimeError("lifecycle harness (late-listed scenarios) did not run: rc=%s %s" % (rc, out[-1500:]))
        th.join()
        return {"histories": rows, "server": sv, "late": late, "idle_poll": idle.get("r") or {"error": "did not run"}}

    def oracle(self, ctx, obs):
        res = []
        for h in obs["histories"]:
            if h.get("error"):
                res.append(("agent:poll-loop-hang", h["error"], {"history": h.get("name")}))
                continue
            ids = {i for l in h["lists"] for i in l}
            inside = window_ok(h["lists"])
            for i in sorted(ids):
                inv = h["invocations"].get(i, 0)
                script = h["fetch_scripts"].get(i, [])
                rp = {"driver": "TestVerifC04Dedup: pollForNewRequests with scripted pending-list replies", "history": h["name"],
                      "lists": h["lists"] if len(ids) <= 40 else "(%d lists, %d ids)" % (len(h["lists"]), len(ids)), "id": i,
                      "fetch_script": script, "upload_script": (h.get("upload_scripts") or {}).get(i), "backend_invocations": inv, "fetch_attempts": h["fetch_attempts"].get(i)}
                if inside and inv > 1:
                    res.append(("agent:forwarded-twice", "request %s was forwarded to the backend %d times" % (i, inv), rp))
                if inside and inv == 0 and not any(script):
                    res.append(("agent:not-forwarded", "request %s was served without error by the proxy but never forwarded" % i, rp))
                if h["fetch_attempts"].get(i, 0) > 3 and inside:
                    res.append(("agent:too-many-fetch-attempts", "request %s was fetched %d times" % (i, h["fetch_attempts"][i]), rp))
        ip = obs.get("idle_poll") or {}
        if ip.get("error") or ip.get("ids_listed") != 1 or ip.get("client_status") != 200:
            res.append(("id-not-handed-to-a-long-waiting-poll", "a client request that arrived when the agent's pending-list poll had been waiting for %s s: %s ID(s) listed after %s s over %s poll(s) (statuses %s, errors %s); the client got %s" % (
                ip.get("idle_s"), ip.get("ids_listed"), ip.get("listed_after_s"), ip.get("polls"), ip.get("poll_statuses"), ip.get("poll_errors"), ip.get("client_status", ip.get("client_err", ip.get("error")))),
                {"driver": "lib/servsched.idle_poll_run: the proxy binary (its own main), one poller, one client", "observed": ip}))
        for r in obs.get("late") or []:
            sc = r["scenario"]
            if r.get("late_fetched_ms", -1) < 0 or r.get("late_backend_calls") != 1 or not r.get("late_upload_ok"):
                res.append(("agent:listed-during-shutdown-not-forwarded", "the pending-list call in flight when SIG%s arrived was answered with a request ID; the agent had %d ms of grace left and forwarded that request %s time(s) (fetched: %s, answered in full: %s)" % (
                    sc.get("signal"), sc.get("grace_ms"), r.get("late_backend_calls"), r.get("late_fetched_ms", -1) >= 0, r.get("late_upload_ok")),
                    {"driver": "harness/cmd/lifecycle -only poll-in-flight-lists-a-request: real agent binary, fake proxy, signal sent while a list call is in flight", "scenario": sc, "observed": {k: v for k, v in r.items() if k not in ("scenario", "stderr_tail")}}))
        res += servsched.oracle_crash(obs["server"])
        # IDs that repeat (within one proxy life or across restarts) make the agent's record of IDs it has already
        # dispatched suppress a new request: listed as pending, never forwarded
        res += servsched.oracle_ids(obs["server"])
        for s in obs["server"]["schedules"]:
            res += servsched.oracle_handoff(s)
        return res

    def model_check(self, ctx, obs):
        items, hs = [], [h for h in obs["histories"] if not h.get("error")]
        for h in hs:
            num = {}
            for l in h["lists"]:
                for i in l:
                    num.setdefault(i, len(num) + 1)
            lists = C.llit(C.llit(str(num[i]) + "%Z" for i in l) for l in h["lists"])
            scripts = C.llit("(%d%%Z, %s)" % (num[i], C.llit(KIND[k] for k in s)) for i, s in h["fetch_scripts"].items())
            ob = C.llit("(%d%%Z, %d%%nat, %d%%nat)" % (n, h["invocations"].get(i, 0), h["fetch_attempts"].get(i, 0)) for i, n in num.items())
            items.append("check_history %s %s %s" % (lists, scripts, ob))
        body = "\n".join(["From Coq Require Import ZArith List Bool.", "From IP Require Import Agent.Worker Agent.DedupCheck Lib.Util.", "Import ListNotations.",
                          "Definition codes : list Z := " + C.llit(items) + ".",
                          "Definition verif_result : list Z := Eval vm_compute in (map (fun p => fst p * 10 + snd p)%Z (nonzero_indices 0%Z codes))."])
        txt, out, dt = C.eval_cases(ctx.work, "cases_c04", body)
        if txt is None:
            return [("cases_c04.v (model evaluation)", "coqc failed: " + out[-600:], {})], 0, {}
        mism, skipped = [], 0
        for v in C.parse_z_list(txt):
            idx, code = v // 10, v % 10
            if code == 1:
                skipped += 1
                continue
            h = hs[idx]
            mism.append(("DedupCheck.check_history", "history %r: observed invocations/fetch attempts differ from spawned(K) x fetch_loop" % h["name"],
                         {"history": h["name"], "lists": h["lists"][:20], "invocations": dict(list(h["invocations"].items())[:30]), "fetch_attempts": dict(list(h["fetch_attempts"].items())[:30]), "fetch_scripts": h["fetch_scripts"]}))
        m2, n2, info2 = servsched.model_check(ctx, obs["server"]["schedules"], "cases_c04_server")
        return mism + m2, len(hs) - skipped + n2, {"coqc_s": round(dt, 2), "histories_compared": len(hs) - skipped, "histories_outside_window": skipped, "server": info2}

    def coverage(self, ctx, obs):
        hs = obs["histories"]
        hist = collections.Counter(h["name"] for h in hs)
        distinct = {C.case_hash(h["lists"]) for h in hs if sum(len(l) for l in h["lists"]) >= 2}
        sc = servsched.coverage(obs["server"])
        kinds = collections.Counter(k for h in hs for s in h.get("fetch_scripts", {}).values() for k in s)
        return {"evaluations": sum(len(h["lists"]) for h in hs) + sc["evaluations"],
                "distinct_nontrivial": len(distinct) + sc["distinct_nontrivial"],
                "rule": "agent: case = history of pending-list replies (+ fetch outcome scripts), distinct by hash of the lists, non-trivial with at least two listed IDs in total; proxy: " + sc["rule"],
                "samples": [{"name": h["name"], "lists": h["lists"][:4], "invocations": dict(list(h["invocations"].items())[:4])} for h in hs[:3]] + sc["samples"][:1],
                "input_distribution": {"history_classes": dict(hist), "max_distinct_ids": max(len({i for l in h["lists"] for i in l}) for h in hs),
                                       "fetch_failure_kinds(1=net,2=5xx,3=404,4=garbage,5=badheader)": {str(k): v for k, v in kinds.items()}, "server": sc["input_distribution"]}}


PROP = C04()
