"""C16 - closing one end of a bridged TCP connection closes the other."""
import collections

from lib import common as C
from lib.driver import Prop
from props.c15 import OVERLAY, build_bridge

BOUND_MS = 2000


class C16(Prop):
    pid = "C16"
    props_file = "Props/C16.v"
    model_targets = ["theories/TcpBridge/Conn.vo"]
    technique = "Coq invariant proof over all orders of peer closes and copy-loop/handler steps of one bridged connection (safety form), sharpness witness for the repaired defect + black-box run of the two real bridge binaries with closes from either side and data in flight"
    level_text = ("C16_close_propagates proves for every order of events that once either peer has closed, every state in which the bridge can do nothing more has both of its connections closed and its handler returned; C16_sharp_without_close is the computed witness "
                  "of the defect repaired in the source (copy loops that do not close their destination stay blocked for ever). The real binaries are run with client-side and server-side closes, 0/1/50000 bytes in flight in either direction; the far end must see end-of-stream within 2 s after "
                  "all data, and the server's open-connection count must return to 0. PARTIAL: time bounds and the OS are outside the model.")
    level_note = ("Trusted: Coq kernel, harness, OS TCP stack. Modelled, not verified: io.Copy returns when its source reports EOF/error; Close of a connection makes reads on it fail; gorilla/websocket. The 2 s bound is a runtime observation, not a theorem.")
    partial_note = "bounded-time delivery of end-of-stream is observed on the real binaries (2 s bound); the theorem is the safety form over the life-cycle model"
    assumptions = ["a copy loop returns when its source connection reports EOF or an error", "closing a connection makes pending and later reads on it fail"]

    def harness(self, ctx):
        env = build_bridge(ctx)
        # the stalled set-up takes as long as the dialer's handshake timeout (45 s): run beside the others
        import threading
        stall = {}
        def run_stall():
            stall["r"] = C.go_test_overlay(ctx.work, "./utils/tcpbridge/connection/", "TestVerifC16Stall$", OVERLAY, "C16Stall.jsonl", ctx.seed, ctx.tier, timeout=600, extra_env=env)
        th = threading.Thread(target=run_stall)
        th.start()
        rc, out, p, dt = C.go_test_overlay(ctx.work, "./utils/tcpbridge/connection/", "TestVerifC16Close$", OVERLAY, "C16Close.jsonl", ctx.seed, ctx.tier, timeout=1800, extra_env=env)
        rows = C.read_jsonl(p)
        if rc != 0 or not rows:
            raise RuntimeError("C16 harness did not run: rc=%s\n%s" % (rc, out[-2000:]))
        rc, out, p2, dt = C.go_test_overlay(ctx.work, "./utils/tcpbridge/connection/", "TestVerifC16Overlap$", OVERLAY, "C16Overlap.jsonl", ctx.seed, ctx.tier, timeout=1800, extra_env=env)
        rows2 = C.read_jsonl(p2)
        if rc != 0 or not rows2:
            raise RuntimeError("C16 overlap harness did not run: rc=%s\n%s" % (rc, out[-2000:]))
        rc, out, p3, dt = C.go_test_overlay(ctx.work, "./utils/tcpbridge/connection/", "TestVerifC16SlowReader$", OVERLAY, "C16Slow.jsonl", ctx.seed, ctx.tier, timeout=1800, extra_env=env)
        rows3 = C.read_jsonl(p3)
        if rc != 0 or not rows3:
            raise RuntimeError("C16 slow-reader harness did not run: rc=%s\n%s" % (rc, out[-2000:]))
        rc, out, p4, dt = C.go_test_overlay(ctx.work, "./utils/tcpbridge/connection/", "TestVerifC16Down$", OVERLAY, "C16Down.jsonl", ctx.seed, ctx.tier, timeout=600, extra_env=env)
        rows4 = C.read_jsonl(p4)
        if rc != 0 or not rows4:
            raise RuntimeError("C16 server-down harness did not run: rc=%s\n%s" % (rc, out[-2000:]))
        rc, out, p5, dt = C.go_test_overlay(ctx.work, "./utils/tcpbridge/connection/", "TestVerifC16SlowUpload$", OVERLAY, "C16Upload.jsonl", ctx.seed, ctx.tier, timeout=900, extra_env=env)
        rows5 = C.read_jsonl(p5)
        if rc != 0 or not rows5:
            raise RuntimeError("C16 slow-upload harness did not run: rc=%s\n%s" % (rc, out[-2000:]))
        rc, out, p6, dt = C.go_test_overlay(ctx.work, "./utils/tcpbridge/connection/", "TestVerifC16AbortThenConcurrent$", OVERLAY, "C16Abort.jsonl", ctx.seed, ctx.tier, timeout=900, extra_env=env)
        rows6 = C.read_jsonl(p6)
        if rc != 0 or not rows6:
            raise RuntimeError("C16 abort-then-concurrent harness did not run: rc=%s\n%s" % (rc, out[-2000:]))
        rc, out, p9, dt = C.go_test_overlay(ctx.work, "./utils/tcpbridge/connection/", "TestVerifC16ServerCloseIdleClient$", OVERLAY, "C16Idle.jsonl", ctx.seed, ctx.tier, timeout=600, extra_env=env)
        rows9 = C.read_jsonl(p9)
        if rc != 0 or not rows9:
            raise RuntimeError("C16 server-close / idle-client harness did not run: rc=%s\n%s" % (rc, out[-2000:]))
        rc, out, p8, dt = C.go_test_overlay(ctx.work, "./utils/tcpbridge/connection/", "TestVerifC16StalledNeighbours$", OVERLAY, "C16Neigh.jsonl", ctx.seed, ctx.tier, timeout=900, extra_env=env)
        rows8 = C.read_jsonl(p8)
        if rc != 0 or not rows8:
            raise RuntimeError("C16 stalled-neighbours harness did not run: rc=%s\n%s" % (rc, out[-2000:]))
        th.join()
        rc, out, p7, dt = stall["r"]
        rows7 = C.read_jsonl(p7)
        if rc != 0 or not rows7:
            raise RuntimeError("C16 stalled-set-up harness did not run: rc=%s\n%s" % (rc, out[-2000:]))
        return {"rows": rows + rows2 + rows3 + rows4 + rows5 + rows6 + rows7 + rows8 + rows9}

    def oracle(self, ctx, obs):
        res = []
        for r in obs["rows"]:
            if r["kind"] == "open-count":
                if r["open"] != 0:
                    res.append(("connections-leaked", "%d of %d bridged connections are still open on the TCP server after both ends are gone" % (r["open"], r["scenarios"]), r))
                continue
            if r["kind"] == "server-close-idle-client":
                rp = {"driver": "TestVerifC16ServerCloseIdleClient: 10 connections on which the TCP server writes a line and closes; the clients read to end of stream and keep their sockets; sockets of the tcp-bridge-frontend process counted in /proc", "observed": r}
                if r.get("clients_saw_data_and_eof") != r.get("connections"):
                    res.append(("server-close:client-did-not-see-data-and-eof", "%s of %s clients received the server's line followed by end of stream" % (r.get("clients_saw_data_and_eof"), r.get("connections")), rp))
                elif r.get("frontend_sockets_before", -1) >= 0 and r.get("frontend_sockets_2s_after_the_server_closed", 0) > r["frontend_sockets_before"] + r["connections"]:
                    # (the client's own socket stays until the client closes it; the websocket socket must be gone)
                    res.append(("server-close:bridge-keeps-its-connections", "2 s after the server had closed all %d connections the frontend process held %d sockets (%d before the connections, %d after the clients closed): it has not released the websocket side" % (
                        r["connections"], r["frontend_sockets_2s_after_the_server_closed"], r["frontend_sockets_before"], r.get("frontend_sockets_after_clients_closed")), rp))
                continue
            if r["kind"] == "stalled-neighbours":
                rp = {"driver": "TestVerifC16StalledNeighbours: a download whose client stops reading and an upload whose server does not read (both stalled by back-pressure, all four endpoints alive), then four short connections through the same two bridge processes", "observed": r}
                if r.get("err"):
                    res.append(("bridge-connect-error", r["err"], rp))
                    continue
                bad = []
                for c in r.get("neighbour_clients") or []:
                    sv = (r.get("neighbour_servers") or {}).get(c["name"])
                    if c.get("err") or c.get("client_received") != "greeting from the server\n":
                        bad.append("%s: the client did not receive the server's greeting (%s)" % (c["name"], c.get("err") or repr(c.get("client_received"))))
                    elif not sv or sv.get("server_received") != "reply " + c["name"] or sv.get("server_eof_after_ms", -1) < 0:
                        bad.append("%s: the server did not receive the client's reply and end of stream within the bound (%s)" % (c["name"], sv))
                if bad:
                    res.append(("neighbour-of-stalled-connection-blocked", "connections sharing the bridge with two stalled ones: " + "; ".join(bad)[:600], rp))
                continue
            if r["kind"] == "stall":
                rp = {"driver": "TestVerifC16Stall: two TCP clients -> tcp-bridge-frontend -> a websocket peer that accepts the connection and never answers the upgrade request; client A hangs up after 1 s, client B waits", "observed": r}
                if r.get("err"):
                    res.append(("bridge-connect-error", r["err"], rp))
                elif r.get("waiting_client_saw_end_after_ms", -1) < 0 or len(r.get("websocket_sockets_released_after_ms") or []) < r.get("websocket_sockets_opened", 0):
                    res.append(("stalled-set-up-never-released", "a bridged connection whose websocket set-up is never answered is held for ever: the waiting client saw %s, %d of %d websocket sockets were released within %d ms (one client had hung up after 1 s)" % (
                        "end of stream after %s ms" % r["waiting_client_saw_end_after_ms"] if r.get("waiting_client_saw_end_after_ms", -1) >= 0 else "no end of stream",
                        len(r.get("websocket_sockets_released_after_ms") or []), r.get("websocket_sockets_opened", 0), r["bound_ms"]), rp))
                continue
            if r["kind"] == "abort-then-concurrent":
                if r.get("bad"):
                    res.append(("concurrent:stream-of-another-connection", "after %d downloads aborted by their clients, %d of %d concurrent downloads did not receive exactly their own %d bytes followed by end of stream" % (
                        r["aborted_downloads"], r["bad"], r["concurrent_downloads"], r["bytes_each"]),
                        {"driver": "TestVerifC16AbortThenConcurrent: 8 downloads cut by the client after 256 KiB, then 8 concurrent downloads of 12 MiB with per-connection content", "observed": r}))
                continue
            if r["kind"] == "slow-upload":
                rp = {"driver": "TestVerifC16SlowUpload: the client uploads 84 MiB to a TCP server that reads 4 MiB/s (about 21 s); nobody closes", "observed": r}
                if r.get("err"):
                    res.append(("bridge-connect-error", r["err"], rp))
                elif r.get("client_written") != r.get("sent_target") or r.get("server_read") != r.get("sent_target") or r.get("server_err") or r.get("client_err") or r.get("ack_err"):
                    res.append(("cut-off-while-both-peers-open", "an upload of %s bytes that took %s ms was cut off: the client wrote %s (%s), the server read %s (%s), acknowledgement: %s" % (
                        r.get("sent_target"), r.get("upload_ms"), r.get("client_written"), r.get("client_err", "no error"), r.get("server_read"), r.get("server_err") or "no error", r.get("ack_err", "received")), rp))
                continue
            if r["kind"] == "server-down":
                rp = {"driver": "TestVerifC16Down: TCP client -> tcp-bridge-frontend <=ws=> tcp-bridge-backend -> TCP server whose listener is closed", "observed": r}
                if r.get("err"):
                    res.append(("bridge-connect-error", r["err"], rp))
                elif r["phase"] == "up" and r.get("received") != "hello":
                    res.append(("bridge-connect-error", "echo through the bridge failed while the server was up: %r" % r, rp))
                elif r["phase"] == "down" and (not r.get("ended") or r.get("delay_ms", 10 ** 9) > BOUND_MS):
                    res.append(("no-eof-when-server-unreachable", "the TCP server was unreachable, yet the client's bridged connection was not ended within %d ms (%s)" % (BOUND_MS, r.get("read_err", "no end seen")), rp))
                continue
            if r["kind"] == "slow-reader":
                rp = {"driver": "TestVerifC16SlowReader: the TCP server streams 48 MiB, the client reads 1 MiB, pauses, then reads on", "observed": r}
                if r.get("err"):
                    res.append(("bridge-connect-error", r["err"], rp))
                elif r.get("client_received") != r.get("sent_target") or r.get("server_err"):
                    res.append(("cut-off-while-both-peers-open", "a client that paused reading for %d ms received %s of %s bytes (%s; server: wrote %s, %s): the bridge ended a connection neither peer had closed" % (
                        r["pause_ms"], r.get("client_received"), r.get("sent_target"), r.get("client_err", "no read error"), r.get("server_written"), r.get("server_err") or "no error"), rp))
                continue
            if r["kind"] == "overlap":
                rp = {"driver": "TestVerifC16Overlap: several TCP clients at once <-> tcp-bridge-frontend <=ws=> tcp-bridge-backend <-> TCP server", "observed": r}
                if r.get("err"):
                    res.append(("bridge-connect-error", r["err"], rp))
                    continue
                if not r.get("tag_arrived"):
                    res.append(("overlap:data-not-delivered", "with %d overlapping connections, the data of connection %d never reached a server connection" % (r["connections"], r["closed_index"]), rp))
                elif not r.get("peer_saw_eof") or r.get("eof_delay_ms", 10 ** 9) > BOUND_MS:
                    res.append(("overlap:no-eof-after-client-close", "with %d overlapping connections, closing client %d did not end its server connection within %d ms" % (r["connections"], r["closed_index"], BOUND_MS), rp))
                elif not r.get("peer_received_all"):
                    res.append(("overlap:data-lost-before-eof", "the server connection of client %d ended without the bytes sent before the close" % r["closed_index"], rp))
                if r.get("others_disturbed"):
                    res.append(("overlap:other-connection-disturbed", "closing client %d ended or cut off %d other bridged connection(s) (%d had their data delivered to another connection)" % (r["closed_index"], r["others_disturbed"], r.get("others_misrouted", 0)), rp))
                continue
            s = r["scenario"]
            rp = {"driver": "TestVerifC16Close: TCP client <-> tcp-bridge-frontend <=ws=> tcp-bridge-backend <-> TCP server", "scenario": s, "observed": {k: v for k, v in r.items() if k not in ("scenario", "kind")}}
            if r.get("err"):
                res.append(("bridge-connect-error", r["err"], rp))
                continue
            want = s["client_data"] if s["closer"] == "client" else s["server_data"]
            if not r.get("peer_saw_eof") or r.get("eof_delay_ms", 10 ** 9) > BOUND_MS:
                res.append(("no-eof-after-%s-close" % s["closer"], "after the %s closed, the other peer saw no end-of-stream within %d ms" % (s["closer"], BOUND_MS), rp))
            elif r.get("peer_received") != want:
                res.append(("data-lost-before-eof:%s-close" % s["closer"], "the other peer received %s of %d bytes sent before the close" % (r.get("peer_received"), want), rp))
        return res

    def model_check(self, ctx, obs):
        # the life-cycle model has no data-dependent prediction to compare; the traces observed
        # (peer closes -> both loops end -> handler returns) are instances of lrun, checked by the oracle above
        return [], len([r for r in obs["rows"] if r["kind"] == "close"]), {"note": "life-cycle model: the observable (EOF at the far end, connection count) is compared by the property oracle"}

    def coverage(self, ctx, obs):
        hist = collections.Counter()
        hist["overlap-closes"] = len([r for r in obs["rows"] if r["kind"] == "overlap"])
        rows = [r for r in obs["rows"] if r["kind"] == "close"]
        for r in rows:
            s = r["scenario"]
            hist["closer:" + s["closer"]] += 1
            hist["client_data:%d" % s["client_data"]] += 1
            hist["server_data:%d" % s["server_data"]] += 1
        return {"evaluations": len(rows), "distinct_nontrivial": len({r["scenario"]["name"] for r in rows if r["scenario"]["client_data"] or r["scenario"]["server_data"]}),
                "rule": "case = (which peer closes, bytes in flight client->server, bytes in flight server->client), enumerated exhaustively over {client,server} x {0,1,50000}^2; non-trivial with data in flight",
                "samples": [rows[0], rows[-1]], "input_distribution": dict(hist), "exhaustive": True,
                "max_eof_delay_ms": max([r.get("eof_delay_ms", 0) for r in rows] or [0])}


PROP = C16()
