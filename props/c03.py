"""C03 - the client receives the backend's response unaltered."""
import collections

from lib import common as C
from lib import servsched
from lib.driver import Prop
from props.c02 import canon, coq_str, build_server

OVERLAY = {"agent/zz_verif_common_test.go": "agent/verif_common_test.go",
           "agent/zz_verif_fakeproxy_test.go": "agent/verif_fakeproxy_test.go",
           "agent/zz_verif_e2e_test.go": "agent/verif_e2e_test.go",
           "agent/zz_verif_c03_test.go": "agent/verif_c03_test.go",
           "agent/zz_verif_chunked_test.go": "agent/verif_chunked_test.go"}
HOP = {"Connection", "Keep-Alive", "Proxy-Authenticate", "Proxy-Authorization", "Te", "Trailer", "Transfer-Encoding", "Upgrade"}
DONTCARE = {"Proxy-Connection"}


class C03(Prop):
    pid = "C03"
    props_file = "Props/C03.v"
    model_targets = ["theories/Agent/RespPathCheck.vo", "theories/Codec/ChunkedCheck.vo"]
    technique = "Coq proofs over all backend responses for status / interim 1xx / header forwarding through the modelled response writer and proxy relay (tables regenerated from the source) and for the trailer announcement round trip; end-to-end differential run with a scripted raw HTTP/1.1 backend and an h2c backend, under the race detector"
    level_text = ("C03_status_and_headers proves for every backend response (any final status outside 1xx, any fields incl. repeated ones, any number of interim 1xx responses, any trailers) that the client gets the final status and exactly the backend's "
                  "values for every end-to-end field and never a hop-by-hop field; C03_trailer_announcement proves that the response writer pre-declares exactly the announced trailer names for any number of names. C03_trailers proves trailer delivery as a whole: "
                  "every trailer field, announced or not, any number of names and values, in both forms ReverseProxy hands them over (plain / Trailer:-prefixed), reaches the client as a trailer with exactly its values in order and nothing else does. The run covers status x method x header sets x body sizes/chunkings "
                  "(1-byte first writes) x framing x 0..6 declared / 0..5 undeclared trailers x interim 100/102/103 x HTTP/1.1 and h2c.")
    level_note = ("Trusted: Coq kernel, srcfacts (hopHeaders, isHopByHopHeader), harness, race detector. Modelled, not verified: httputil.ReverseProxy's call sequence (revproxy_calls), net/http response serialisation and parsing, chunked coding. "
                  "The interleaving of handler and serialiser goroutines is outside the model: the unsynchronised trailer map is exhibited by the race detector (known finding). Fields added on the path (Date, sniffed Content-Type) are allowed; "
                  "entity headers of HEAD/204/304 responses may be omitted; Proxy-Connection is a declared don't-care.")
    partial_note = "goroutine interleavings of the response writer (handler vs. serialiser) are outside the model and are decided by the race detector; the body is an opaque token in the model"
    assumptions = [
        "ReverseProxy calls the ResponseWriter as specified by revproxy_calls (1xx via WriteHeader, one joined Trailer value, trailers unprefixed iff all were announced)",
        "trailer field names do not collide with header field names of the same response and are plain tokens",
    ]

    def harness(self, ctx):
        srv = build_server(ctx)
        rc, out, p, dt = C.go_test_overlay(ctx.work, "./agent/", "TestVerifC03$", OVERLAY, "c03.jsonl", ctx.seed, ctx.tier, race=True, timeout=2400, extra_env={"VERIF_SERVER_BIN": srv})
        rows = C.read_jsonl(p)
        cases = [r for r in rows if r.get("kind") == "c03"]
        races = servsched.race_reports(out)
        crash = C.panic_excerpt(out) if rc != 0 else None
        if (not cases and not crash) or (rc != 0 and not races and not crash):
            raise RuntimeError("C03 harness did not run: rc=%s\n%s" % (rc, out[-2500:]))
        for r in cases:
            b = r["backend"]
            for k in ("interim", "fields", "chunks", "declared_trailers", "undeclared_trailers"):
                b[k] = b.get(k) or []
            r["client"]["header"] = r["client"].get("header") or {}
            r["client"]["trailer"] = r["client"].get("trailer") or {}
        rc, out, p2, dt = C.go_test_overlay(ctx.work, "./agent/", "TestVerifChunked$", OVERLAY, "chunked.jsonl", ctx.seed, ctx.tier, timeout=900)
        chunked = [r for r in C.read_jsonl(p2) if r.get("kind") == "chunked"]
        if rc != 0 or not chunked:
            raise RuntimeError("C03 chunked-coding harness did not run: rc=%s\n%s" % (rc, out[-2000:]))
        return {"cases": cases, "races": races, "proxy_races": [r for r in rows if r.get("kind") == "race"], "chunked": chunked, "crash": crash}

    @staticmethod
    def has_body(b):
        return b["method"] != "HEAD" and b["status"] not in (204, 304)

    def oracle(self, ctx, obs):
        res = []
        if obs.get("crash"):
            import re
            m = re.search(r"(panic: [^\n]*|fatal error: [^\n]*)", obs["crash"])
            res.append(("agent-crashed", "the agent's response path (run in-process under the race detector) ended the process: %s" % (m.group(1) if m else "see excerpt"),
                        {"driver": "go test -race TestVerifC03", "output_excerpt": obs["crash"]}))
        for sig, txt in obs["races"]:
            res.append((sig, "the race detector reported a data race in the agent's response path", {"report": txt, "driver": "go test -race TestVerifC03"}))
        for r in obs["proxy_races"]:
            res.append(("data-race:proxy-binary", "race detector report from the proxy binary", {"report": r["report"][:3000]}))
        for r in obs["cases"]:
            b, cl = r["backend"], r["client"]
            rp = {"driver": "TestVerifC03: scripted %s backend -> real agent code -> real proxy binary -> raw client" % b["proto"], "backend_response": b, "client_received": cl}
            tag = ":" + b["proto"]
            if cl.get("err"):
                res.append(("client-error" + tag, "client could not read the response: " + cl["err"], rp))
                continue
            if cl["status"] != b["status"]:
                res.append(("status-changed:%s%s" % ("after-interim" if b["interim"] else "plain", tag), "final status %d arrived as %d (interim %s)" % (b["status"], cl["status"], b["interim"]), rp))
                continue
            exp = collections.OrderedDict()
            for n, v in b["fields"]:
                exp.setdefault(canon(n), []).append(v)
            entity_optional = not self.has_body(b)
            for k, v in exp.items():
                if k in HOP:
                    if k in cl["header"]:
                        res.append(("hop-by-hop-forwarded:" + k, "hop-by-hop field %s reached the client" % k, rp))
                    continue
                if k in DONTCARE:
                    continue
                got = cl["header"].get(k)
                if got != v:
                    if entity_optional and got is None and k in ("Content-Type", "Content-Language", "Content-Length"):
                        continue
                    res.append(("e2e-header-changed" + tag, "field %s sent as %r arrived as %r" % (k, v, got), rp))
            if self.has_body(b):
                if cl["body_len"] != b["body_len"] or cl["body_hash"] != r["body_hash"]:
                    res.append(("body-changed:%s%s" % (b["framing"], tag), "body of %d bytes arrived as %d bytes" % (b["body_len"], cl["body_len"]), rp))
            elif cl["body_len"] != 0:
                res.append(("body-on-bodyless-response" + tag, "a %s/%d response arrived with %d body bytes" % (b["method"], b["status"], cl["body_len"]), rp))
            if self.has_body(b) and (b["framing"] == "chunked" or (b["proto"] == "h2c" and b["framing"] == "length")):
                et = collections.OrderedDict()
                for n, v in b["declared_trailers"] + b["undeclared_trailers"]:
                    et.setdefault(canon(n), []).append(v)
                if dict(et) != cl["trailer"]:
                    nd = len({canon(n) for n, v in b["declared_trailers"]})
                    res.append(("trailers-changed:declared=%s,undeclared=%s%s" % ("0" if nd == 0 else "1" if nd == 1 else "2+", "0" if not b["undeclared_trailers"] else "1+", tag),
                                "trailers %r arrived as %r" % (dict(et), cl["trailer"]), rp))
                for k in et:
                    if k in cl["header"] and k not in exp:
                        res.append(("trailer-delivered-as-header" + tag, "trailer field %s also appears among the response headers" % k, rp))
        return res

    def model_check(self, ctx, obs):
        rows = [r for r in obs["cases"] if not r["client"].get("err")]
        items = []
        for r in rows:
            b, cl = r["backend"], r["client"]
            hb = self.has_body(b)
            chunked = hb and (b["framing"] == "chunked" or (b["proto"] == "h2c" and b["framing"] == "length"))   # an h2 response may carry trailers next to a Content-Length
            decl = b["declared_trailers"] if chunked else []
            und = b["undeclared_trailers"] if chunked else []
            br = "{| br_interim := %s; br_status := %d%%Z; br_fields := %s; br_body := (0, EmptyString); br_declared := %s; br_undeclared := %s |}" % (
                C.llit("%d%%Z" % c for c in b["interim"]), b["status"], C.llit("(%s, %s)" % (coq_str(n), coq_str(v)) for n, v in b["fields"]),
                C.llit("(%s, %s)" % (coq_str(n), coq_str(v)) for n, v in decl), C.llit("(%s, %s)" % (coq_str(n), coq_str(v)) for n, v in und))
            ign = ["Proxy-Connection"] + (["Content-Type", "Content-Language", "Content-Length"] if not hb else [])
            hdr = C.llit("(%s, %s)" % (coq_str(k), C.llit(coq_str(v) for v in vs)) for k, vs in cl["header"].items())
            trl = C.llit("(%s, %s)" % (coq_str(k), C.llit(coq_str(v) for v in vs)) for k, vs in cl["trailer"].items())
            items.append("c03_check %s %d%%Z %s %s %s" % (br, cl["status"], hdr, trl, C.llit(coq_str(k) for k in ign)))
        mism, total, dt_all = [], 0, 0
        shard = 300
        for s0 in range(0, len(items), shard):
            body = "\n".join(["From Coq Require Import ZArith String List Bool Ascii.", "From IP Require Import Agent.RespPath Agent.RespPathCheck Lib.Util.", "Import ListNotations.", "Open Scope string_scope.", "Open Scope list_scope.",
                              "Definition codes : list Z := " + C.llit(items[s0:s0 + shard]) + ".",
                              "Definition verif_result : list Z := Eval vm_compute in (map (fun p => fst p * 10 + snd p)%Z (nonzero_indices 0%Z codes))."])
            txt, out, dt = C.eval_cases(ctx.work, "cases_c03_%d" % s0, body)
            dt_all += dt
            if txt is None:
                return [("cases_c03.v (model evaluation)", "coqc failed: " + out[-600:], {})], total, {}
            for v in C.parse_z_list(txt):
                idx, code = v // 10, v % 10
                r = rows[s0 + idx]
                mism.append(("RespPathCheck.c03_check", {1: "final status differs from the model's", 2: "header values differ from the model's", 3: "trailers differ from the model's", 4: "the model produces no response"}.get(code, str(code)),
                             {"backend_response": r["backend"], "client_received": r["client"]}))
            total += len(items[s0:s0 + shard])
        # net/http's chunked writer and reader against Codec/Chunked.v
        def rle(hx):
            b = bytes.fromhex(hx)
            out, i = [], 0
            while i < len(b):
                j = i
                while j < len(b) and b[j] == b[i]:
                    j += 1
                out.append("(%d, %d)" % (b[i], j - i))
                i = j
            return C.llit(out)
        ch = obs.get("chunked") or []
        citems = ["chunked_case_ok %s %s %s %s" % (C.llit(rle(w) for w in (r.get("writes") or [])), C.llit(str(x) for x in bytes.fromhex(r["trailer"])), rle(r["wire"]),
                                                   C.llit("(%d, %s)" % (c["k"], C.blit(c["complete"])) for c in r["cuts"])) for r in ch]
        bad, cdt = C.eval_bool_items(ctx.work, "cases_c03_chunked", ["From Coq Require Import List Bool Arith ZArith.", "From IP Require Import Codec.Chunked Codec.ChunkedCheck Lib.Util.", "Import ListNotations."], citems, shard=200)
        if bad is None:
            return [("cases_c03_chunked.v (model evaluation)", "coqc failed: " + cdt[-600:], {})], total, {}
        for i in bad:
            r = ch[i]
            mism.append(("ChunkedCheck.chunked_case_ok", "net/http's chunked writer/reader and Codec/Chunked.v disagree (encoding, decoding or the verdict on a truncated prefix)",
                         {"writes_hex": [w[:80] for w in (r.get("writes") or [])], "trailer_hex": r["trailer"], "wire_hex_prefix": r["wire"][:200], "cuts": r["cuts"][:20]}))
        for r in ch:
            if not r.get("go_roundtrip_ok"):
                mism.append(("net/http chunked round trip", "Go's own reader did not return what its writer was given", {"writes_hex": [w[:80] for w in (r.get("writes") or [])]}))
        return mism, total + len(citems), {"coqc_s": round(dt_all + cdt, 2), "cases": total, "chunked_cases": len(citems), "chunked_cut_positions": sum(len(r["cuts"]) for r in ch)}

    def coverage(self, ctx, obs):
        rows = obs["cases"]
        hist = collections.Counter()
        for r in rows:
            b = r["backend"]
            hist["proto:" + b["proto"]] += 1
            hist["method:" + b["method"]] += 1
            hist["status:%dxx" % (b["status"] // 100)] += 1
            hist["interim:%s" % (",".join(map(str, b["interim"])) or "none")] += 1
            hist["framing:" + b["framing"]] += 1
            s = b["body_len"]
            hist["body:%s" % ("0" if s == 0 else "1-2" if s <= 2 else "<=4097" if s <= 4097 else "<=65537" if s <= 65537 else ">=1MB")] += 1
            hist["declared_trailer_names:%d" % len({canon(n) for n, v in b["declared_trailers"]})] += 1
            hist["undeclared_trailers:%d" % len(b["undeclared_trailers"])] += 1
        distinct = {C.case_hash([b["backend"][k] for k in ("method", "proto", "interim", "status", "fields", "body_len", "framing", "chunks", "declared_trailers", "undeclared_trailers")]) for b in rows
                    if b["backend"]["fields"] or b["backend"]["declared_trailers"] or b["backend"]["undeclared_trailers"] or b["backend"]["interim"]}
        return {"evaluations": len(rows), "distinct_nontrivial": len(distinct),
                "rule": "case = one scripted backend response (method, protocol, interim list, status, fields, body size/chunking/framing, trailers); distinct by hash; non-trivial when it has header fields, trailers or interim responses",
                "samples": [rows[0]["backend"], rows[-1]["backend"]], "input_distribution": dict(hist), "race_reports": len(obs["races"])}


PROP = C03()
