"""C14 - banner and shim-script injection touch HTML documents only."""
import collections

from lib import common as C
from lib.driver import Prop
from props.c02 import coq_str

OV_BANNER = {"agent/banner/zz_verif_common_test.go": "agent_banner/verif_common_test.go", "agent/banner/zz_verif_c14_test.go": "agent_banner/verif_c14_test.go"}
OV_WS = {"agent/websockets/zz_verif_common_test.go": "agent_websockets/verif_common_test.go", "agent/websockets/zz_verif_c14_test.go": "agent_websockets/verif_c14_test.go"}
NOCACHE = "no-cache, no-store, max-age=0, must-revalidate"


class C14(Prop):
    pid = "C14"
    props_file = "Props/C14.v"
    model_targets = ["theories/Banner/BannerCheck.vo", "theories/Banner/Writer.vo"]
    technique = "Coq proofs for the body splice (all bodies, all first-read lengths: unchanged or script inserted once right after the first <head> of the whole body) and for the banner decision and header edits + handler-level differential run (feature on vs the backend's own response) with scripted read segmentation"
    level_text = ("C14_shim_splice / C14_replace_first prove for every body, every length of the first read and every script that the output is the body itself or the body with the script inserted exactly once immediately after the first <head> of the whole body. "
                  "C14_banner_only_html / C14_banner_marks prove that the banner changes a response only for GET + Accept containing text/html + 200 + HTML type + no attachment, that an already framed request keeps the original body, and which header fields are set (all others unchanged). "
                  "banner.Proxy and websockets.ShimBody are run on generated requests/responses (methods, Accept, Sec-Fetch-*, Referer, statuses, Content-Type/Disposition values, <head> at offsets around 1024, split across reads, repeated, upper-case, absent) and compared with the model.")
    level_note = ("Trusted: Coq kernel, harness. Modelled, not verified: strings.Contains/Replace (modelled exactly on byte lists / Coq strings), url.Parse of the Referer (its result is an input of the model), text/template rendering of the frame page (checked: contains the banner and src=\"<request URL>\"). "
                  "ShimBody drops Content-Length of every response whose Content-Type contains 'html' (even when nothing is inserted): inside what the property allows for HTML documents.")
    assumptions = ["the first Read of the backend body returns k bytes for an arbitrary k in [1,1024] (or the whole shorter body)", "Header.Get returns the first value of a field"]

    def harness(self, ctx):
        rc, out, p, dt = C.go_test_overlay(ctx.work, "./agent/banner/", "TestVerifC14Banner$", OV_BANNER, "banner.jsonl", ctx.seed, ctx.tier, timeout=900)
        b = [r for r in C.read_jsonl(p) if r.get("kind") == "banner"]
        if rc != 0 or not b:
            raise RuntimeError("C14 banner harness did not run: rc=%s\n%s" % (rc, out[-2000:]))
        rc, out, p, dt = C.go_test_overlay(ctx.work, "./agent/websockets/", "TestVerifC14Shim$", OV_WS, "shim.jsonl", ctx.seed, ctx.tier, timeout=900)
        s = C.read_jsonl(p)
        if rc != 0 or not s:
            raise RuntimeError("C14 shim harness did not run: rc=%s\n%s" % (rc, out[-2000:]))
        rc, out, p, dt = C.go_test_overlay(ctx.work, "./agent/banner/", "TestVerifC14Interim$", OV_BANNER, "banner_interim.jsonl", ctx.seed, ctx.tier, timeout=600)
        interim = [r for r in C.read_jsonl(p) if r.get("kind") == "interim"]
        if rc != 0 or not interim:
            raise RuntimeError("C14 interim-response harness did not run: rc=%s\n%s" % (rc, out[-2000:]))
        return {"banner": b, "shim": [r for r in s if r.get("kind") == "shim"], "script": [r for r in s if r.get("kind") == "script"], "interim": interim}

    @staticmethod
    def _vals(fields, name):
        return [v for n, v in fields if n.lower() == name.lower()]

    def _observed_outcome(self, r):
        same_body = r["body_sum"] == r["orig_sum"]
        if r["has_banner"] and not same_body:
            return 2
        h = r["header"]
        marked = h.get("X-Frame-Options") == ["sameorigin"] and h.get("Cache-Control") == [NOCACHE]
        back = r["backend"]["fields"]
        if marked and (self._vals(back, "X-Frame-Options") != ["sameorigin"] or self._vals(back, "Cache-Control") != [NOCACHE]):
            return 1
        return 0

    def oracle(self, ctx, obs):
        res = []
        for r in obs.get("interim") or []:
            bk = r["backend"]
            rp = {"driver": "TestVerifC14Interim: client -> banner.Proxy -> httputil.ReverseProxy -> raw backend answering %s then %s %s" % (bk.get("interim") or "nothing", bk["status"], bk["content_type"]), "observed": r}
            sig = "interim" if bk.get("interim") else "no-interim"
            if r.get("err"):
                res.append(("banner:interim-request-failed", r["err"], rp))
                continue
            frameable = bk["status"] == 200 and "text/html" in bk["content_type"]
            if r["status"] != bk["status"]:
                res.append(("banner:status-changed:" + sig, "the backend answered %s (after informational %s), the client received %s" % (bk["status"], bk.get("interim"), r["status"]), rp))
            elif frameable and not r["body_has_banner"]:
                res.append(("banner:frame-missing:" + sig, "a 200 HTML page requested by a browser was not framed", rp))
            elif not frameable and not r["body_is_backends"]:
                res.append(("banner:non-html-altered:" + sig, "a response that is not a 200 HTML document did not arrive as the backend sent it", rp))
        for r in obs["banner"]:
            back = r["backend"]
            o = self._observed_outcome(r)
            html_doc = (r["method"] == "GET" and "text/html" in r["accept"] and back["status"] == 200
                        and any("text/html" in v or "application/xhtml+xml" in v for v in self._vals(back["fields"], "Content-Type"))
                        and not any("attachment" in v for v in self._vals(back["fields"], "Content-Disposition")))
            rp = {"driver": "TestVerifC14Banner: banner.Proxy around a scripted handler", "request": {k: r[k] for k in ("method", "accept", "sec_fetch_mode", "sec_fetch_dest", "referer", "url")},
                  "backend_response": back, "client_got": {"status": r["status"], "header": r["header"], "body_len": r["body_len"], "has_banner": r["has_banner"]}}
            if r["status"] != back["status"]:
                res.append(("banner:status-changed", "status %s became %s" % (back["status"], r["status"]), rp))
            if not html_doc:
                if o != 0 or r["body_sum"] != r["orig_sum"]:
                    res.append(("banner:non-html-altered", "a response that is not a 200 non-attachment HTML reply to an HTML GET was altered", rp))
                for name in ("Set-Cookie", "X-Other", "Cache-Control", "X-Frame-Options", "Content-Type", "Content-Disposition", "Content-Encoding"):
                    if r["header"].get(name, []) != self._vals(back["fields"], name):
                        res.append(("banner:non-html-header-altered", "field %s changed on a response the banner must not touch" % name, rp))
            else:
                framed = r["sec_fetch_mode"] == "nested-navigate" or r["sec_fetch_dest"] == "iframe" or (r["referer_ok"] and r["referer_host"] == r["host"] and r["referer_path"] == r["path"])
                if framed and r["body_sum"] != r["orig_sum"]:
                    res.append(("banner:framed-request-body-replaced", "an already framed request did not get the original body", rp))
                if not framed and not (r["has_banner"] and r["embeds_url"]):
                    res.append(("banner:frame-missing", "the frame page was not served / does not embed the requested URL", rp))
                if r["header"].get("X-Frame-Options") != ["sameorigin"] or r["header"].get("Cache-Control") != [NOCACHE]:
                    res.append(("banner:frame-not-marked", "the framed response is not marked uncacheable and same-origin-frameable", rp))
                for name in ("Set-Cookie", "X-Other") + (("Content-Encoding", "Content-Type") if framed else ()):
                    # (an already framed request gets the original body: also the fields that say how to read it)
                    if r["header"].get(name, []) != self._vals(back["fields"], name):
                        res.append(("banner:html-other-header-altered", "field %s changed%s" % (name, " on the original body served to an already framed request" if framed else ""), rp))
        for r in obs["shim"]:
            html = "html" in r["content_type"].lower()
            rp = {"driver": "TestVerifC14Shim: websockets.ShimBody on a scripted response body with scripted Read segmentation", "case": {k: v for k, v in r.items() if k != "kind"}}
            if r["err"]:
                res.append(("shim:error", r["err"], rp))
            if not r["other_kept"]:
                res.append(("shim:header-altered", "an unrelated header field changed", rp))
            if not html:
                if not r["unchanged"] or not r["content_length_kept"]:
                    res.append(("shim:non-html-altered", "a non-HTML response was altered", rp))
                continue
            if r.get("content_length_after") not in (None, "", str(r["out_len"])):
                res.append(("shim:announced-length-wrong", "an HTML response (length %s) leaves the splice with Content-Length %s for a body of %d bytes" % (
                    "known" if r.get("had_length") else "unknown", r.get("content_length_after"), r["out_len"]), rp))
            if r["unchanged"]:
                continue
            if "insert_at" not in r or not r.get("rest_equals_body") or r.get("inserted_twice"):
                res.append(("shim:body-corrupted", "the body changed by something else than one insertion of the script", rp))
            elif r["first_head"] < 0 or r["insert_at"] != r["first_head"] + 6:
                res.append(("shim:inserted-at-wrong-place", "script inserted at %s, first <head> at %s" % (r["insert_at"], r["first_head"]), rp))
        if obs["script"] and not obs["script"][0]["mentions_path"]:
            res.append(("shim:script-without-path", "the inserted script does not mention the shim path", obs["script"][0]))
        return res

    def model_check(self, ctx, obs):
        items, rows = [], []
        for r in obs["banner"]:
            back = r["backend"]
            q = ("{| q_method := %s; q_accept := %s; q_sec_fetch_mode := %s; q_sec_fetch_dest := %s; q_referer_host := %s; q_referer_path := %s; q_referer_ok := %s; q_host := %s; q_path := %s |}" %
                 (coq_str(r["method"]), coq_str(r["accept"]), coq_str(r["sec_fetch_mode"]), coq_str(r["sec_fetch_dest"]), coq_str(r["referer_host"]), coq_str(r["referer_path"]), C.blit(r["referer_ok"]), coq_str(r["host"]), coq_str(r["path"])))
            items.append("banner_case_ok %s %d%%Z %s %s %d%%Z" % (q, back["status"], C.llit(coq_str(v) for v in self._vals(back["fields"], "Content-Disposition")),
                                                               C.llit(coq_str(v) for v in self._vals(back["fields"], "Content-Type")), self._observed_outcome(r)))
            rows.append(("banner", r))
        nshim = 0
        seen_shim = set()
        for r in obs["shim"]:
            if "body_hex" not in r or r["body_len"] > 1200 or nshim >= (2000 if ctx.thorough else 160):
                continue
            key = (r["content_type"], r["body_hex"], r["first_read"])
            if key in seen_shim:
                continue
            seen_shim.add(key)
            nshim += 1
            body = [int(r["body_hex"][i:i + 2], 16) for i in range(0, len(r["body_hex"]), 2)]
            items.append("shim_case_ok %s (map Z.to_nat %s) (Z.to_nat %d%%Z) %s" % (coq_str(r["content_type"]), C.llit("%d%%Z" % b for b in body), r["first_read"], C.zlit(r.get("insert_at", -1)) + "%Z"))
            rows.append(("shim", r))
        mism, dt_all = [], 0
        shard = 700
        for s0 in range(0, len(items), shard):
            body = "\n".join(["From Coq Require Import ZArith String List Bool Ascii.", "From IP Require Import Banner.Banner Banner.BannerCheck Lib.Util.", "Import ListNotations.", "Open Scope string_scope.", "Open Scope list_scope.",
                              "Definition oks : list bool := " + C.llit(items[s0:s0 + shard]) + ".",
                              "Definition verif_result : list Z := Eval vm_compute in (bad_indices (fun b : bool => b) 0%Z oks)."])
            txt, out, dt = C.eval_cases(ctx.work, "cases_c14_%d" % s0, body)
            dt_all += dt
            if txt is None:
                return [("cases_c14.v (model evaluation)", "coqc failed: " + out[-600:], {})], 0, {}
            for i in C.parse_z_list(txt):
                kind, r = rows[s0 + i]
                mism.append(("BannerCheck.%s_case_ok" % kind, "observed %s outcome differs from the model's" % kind, {k: v for k, v in r.items() if k not in ("body_hex",)}))
        # the response writer on the calls ReverseProxy makes (informational responses, final header, body): Banner/Writer.v
        witems, wrows = [], []
        for r in obs.get("interim") or []:
            bk = r["backend"]
            if r.get("err"):
                continue
            dec = 2 if (bk["status"] == 200 and ("text/html" in bk["content_type"] or "application/xhtml+xml" in bk["content_type"])) else 0
            kind = 1 if r.get("body_has_banner") else 0
            if not r.get("body_has_banner") and not r.get("body_is_backends"):
                kind = 7   # neither the frame page nor the backend's bytes
            witems.append("writer_case %d %s %d (Z.to_nat %d) %d %d" % (dec, C.llit(str(c) for c in (bk.get("interim") or [])), bk["status"], len(bk.get("body") or ""), r["status"], kind))
            wrows.append(r)
        bad, wdt = C.eval_code_items(ctx.work, "cases_c14_writer", ["From Coq Require Import ZArith List Bool.", "From IP Require Import Banner.Banner Banner.Writer Lib.Util.", "Import ListNotations.", "Open Scope Z_scope."], witems)
        if bad is None:
            return [("cases_c14_writer.v (model evaluation)", "coqc failed: " + wdt[-600:], {})], len(items), {}
        for idx, code in bad:
            mism.append(("Writer.writer_case", "through the real chain the client received %s than the response writer model gives" % ("another status" if code == 1 else "another body (frame page / the backend's bytes)"), wrows[idx]))
        return mism, len(items) + len(witems), {"coqc_s": round(dt_all + wdt, 2), "cases": len(items), "writer_cases": len(witems)}

    def coverage(self, ctx, obs):
        hist = collections.Counter()
        for r in obs["banner"]:
            hist["banner:outcome=%d" % self._observed_outcome(r)] += 1
            hist["banner:method=" + r["method"]] += 1
        for r in obs["shim"]:
            hist["shim:%s" % ("inserted" if "insert_at" in r else "unchanged")] += 1
            fh = r["first_head"]
            hist["shim:first_head=%s" % ("absent" if fh < 0 else "<1018" if fh < 1018 else "1018-1024" if fh <= 1024 else ">1024")] += 1
        db = {C.case_hash([r[k] for k in ("method", "accept", "sec_fetch_mode", "sec_fetch_dest", "referer")] + [r["backend"]]) for r in obs["banner"]}
        ds = {C.case_hash([r["content_type"], r.get("body_hex", r["body_len"]), r["first_read"]]) for r in obs["shim"]}
        return {"evaluations": len(obs["banner"]) + len(obs["shim"]), "distinct_nontrivial": len(db) + len(ds),
                "rule": "banner case = (request method/Accept/Sec-Fetch/Referer, backend status/fields/body); shim case = (content type, body, first-read length); distinct by hash; every case is non-trivial (the decision depends on all components)",
                "samples": [{k: obs["banner"][0][k] for k in ("method", "accept", "referer", "status", "has_banner")}, {k: obs["shim"][0][k] for k in ("content_type", "body_len", "first_read", "first_head")}],
                "input_distribution": dict(hist)}


PROP = C14()
