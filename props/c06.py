"""C06 - retried response uploads are never corrupted."""
import collections

from lib import common as C
from lib.driver import Prop

OVERLAY = {"agent/utils/zz_verif_common_test.go": "agent_utils/verif_common_test.go",
           "agent/utils/zz_verif_c06_test.go": "agent_utils/verif_c06_test.go",
           "agent/utils/zz_verif_c06_transport_test.go": "agent_utils/verif_c06_transport_test.go"}
CAP = 4096


MODEL_MAX_SIZE = 300000


class C06(Prop):
    pid = "C06"
    props_file = "Props/C06.v"
    model_targets = ["theories/Agent/ReplayCheck.vo"]
    technique = "Coq invariant proof over all streams, read segmentations and fault scripts for the replay buffer + attempt loop; refutation theorem with a computed witness for the lingering-reader schedule (known finding); regenerated constants; differential run of postResponseWithRetries (scripted RoundTripper) and of NewResponseForwarder over the real http.Transport against a byte-level fault server"
    level_text = ("C06_sequential proves for every serialised response, every source segmentation, every transport read size >= the replay buffer and every fault script that each attempt carries a prefix of the stream from its first byte "
                  "(all of it when read to the end), that there are at most 3 attempts, and C06_retry_only_if_replayable that a retry starts only while everything consumed is still buffered. The full statement (C06_statement) also quantifies over the "
                  "timing of the previous attempt's body reader and is REFUTED for the current code (C06_refuted_lingering_reader, computed witness; reproduced on the real code on every run and listed as a known finding). "
                  "The real functions are run on the full single-fault matrix (kind x position class x size around 4096), sampled 2- and 3-fault scripts, and real-transport scenarios; observed read events are replayed through the model and must give the same attempts.")
    level_note = ("Trusted: Coq kernel, srcfacts (readResponseBufSize, maxWriteResponseRetryCount, channel capacities), harness. Hypothesis: transport read sizes >= 4096 (validated: every observed Read size is recorded; net/http copies with 32 KiB buffers); "
                  "C06_small_read_refuted documents what happens otherwise. Modelled, not verified: io.Pipe (a read returns 0 bytes only at end of stream), http.Transport's body-writer lifetime. Partial: the lingering-reader schedules are outside C06_sequential.")
    partial_note = "the statement restricted to schedules in which only the current attempt's transport reads the body is proved; the unrestricted statement is refuted (known finding C06 lingering reader)"
    assumptions = [
        "io.Pipe: reads return the next bytes in order; a read returns no bytes only when the stream is exhausted and closed",
        "the transport reads the request body with buffers of at least readResponseBufSize bytes (observed sizes are recorded in the evidence)",
        "a fault script decides per attempt after how many bytes the proxy answers 5xx / the connection fails",
    ]

    def harness(self, ctx):
        obs = {"scripted": [], "lingering": [], "transport": [], "keepalive": []}
        for name in ("Scripted", "Lingering", "Transport", "KeepAlive"):
            rc, out, p, dt = C.go_test_overlay(ctx.work, "./agent/utils/", "TestVerifC06" + name + "$", OVERLAY, "c06_%s.jsonl" % name.lower(), ctx.seed, ctx.tier, timeout=1200)
            rows = C.read_jsonl(p)
            if rc != 0 or not rows:
                raise RuntimeError("C06 harness %s did not run: rc=%s\n%s" % (name, rc, out[-2000:]))
            for r in rows:
                r["attempts"] = r.get("attempts") or []
                r["events"] = r.get("events") or []
            obs[name.lower()] = rows
        return obs

    @staticmethod
    def _classify(script_entry, size):
        pos = script_entry["pos"]
        pc = "before-body" if pos == 0 else "after-body" if pos >= size else "at-replay-limit" if pos in (4095, 4096, 4097) else "inside-body"
        return "%s@%s" % ({1: "conn-error", 2: "5xx", 3: "5xx"}.get(script_entry["kind"], "ok"), pc)

    def oracle(self, ctx, obs):
        res = []
        for r in obs["scripted"] + obs["lingering"]:
            c = r["case"]
            script = c.get("script") or []
            lingering = any(s.get("linger") for s in script)
            rp = {"driver": "postResponseWithRetries with a scripted RoundTripper (kind 0 ack, 1 transport error, 2/3 5xx; pos = bytes read before answering; linger = previous reader still alive)",
                  "case": c, "attempts": r["attempts"], "returned": r["returned"], "err": r["err"], "lingered_bytes": r.get("lingered_bytes")}
            if not r["returned"]:
                res.append(("upload-loop-hang", "postResponseWithRetries did not return", rp))
            if not r["writer_unblocked"]:
                res.append(("handler-left-blocked", "the response writer stayed blocked after the upload gave up", rp))
            if len(r["attempts"]) > 3:
                res.append(("too-many-attempts", "%d upload attempts" % len(r["attempts"]), rp))
            for i, a in enumerate(r["attempts"]):
                fault = self._classify(script[i - 1], c["size"]) if 0 < i <= len(script) else "none"
                tag = "lingering-reader" if lingering else "sequential"
                if a["acked"] and a["eof"] and not a["complete"]:
                    res.append(("acked-incomplete:%s" % tag, "attempt %d was acknowledged but carried %d of %d bytes (previous fault %s)" % (i + 1, a["n"], c["size"], fault), rp))
                elif not a["is_prefix"]:
                    res.append(("attempt-not-a-prefix:%s" % tag, "attempt %d carried bytes that are not a prefix of the serialised response (previous fault %s)" % (i + 1, fault), rp))
            # retried although more than the buffer had been consumed?
            consumed = 0
            for i, a in enumerate(r["attempts"][:-1]):
                consumed = max(consumed, a["n"])
                if consumed >= CAP and not lingering:
                    res.append(("retry-beyond-replay-limit", "attempt %d started after %d bytes had been consumed" % (i + 2, consumed), rp))
        for r in obs["transport"]:
            c = r["case"]
            rp = {"driver": "NewResponseForwarder over the real http.Transport against a byte-level fault server (when: full = answer after the whole body, headers = early answer, close0/closeN = connection closed)",
                  "case": c, "attempts": r.get("attempts"), "handler_returned": r.get("handler_returned"), "write_err": r.get("write_err"), "close_err": r.get("close_err")}
            if r.get("error"):
                res.append(("transport-harness-error", r["error"], rp))
                continue
            if not r["handler_returned"]:
                res.append(("handler-left-blocked", "handler did not return in scenario %s" % c["name"], rp))
            if len(r["attempts"]) > 3:
                res.append(("too-many-attempts", "%d upload attempts in scenario %s" % (len(r["attempts"]), c["name"]), rp))
            early = any(s.get("when") == "headers" for s in c["script"])
            for i, a in enumerate(r["attempts"]):
                if a["acked"] and a["complete"] and not a["body_ok"]:
                    tag = "lingering-reader" if early else "sequential"
                    res.append(("acked-incomplete:%s" % tag, "scenario %s: acknowledged attempt %d does not carry the complete response (%d upload bytes)" % (c["name"], i + 1, a["upload_len"]), rp))
        for r in obs.get("keepalive", []):
            rp = {"driver": "NewResponseForwarder over the real http.Transport against a keep-alive fault server whose script is per request (answer = read the body, answer, keep the connection; close = close without answering)",
                  "case": {k: r.get(k) for k in ("name", "size", "script")}, "requests_seen_by_the_proxy": r.get("requests_seen"), "handler_returned": r.get("handler_returned"), "close_err": r.get("close_err")}
            if r.get("error"):
                res.append(("transport-harness-error", r["error"], rp))
                continue
            if not r["handler_returned"]:
                res.append(("handler-left-blocked", "handler did not return in keep-alive scenario %s" % r["name"], rp))
            if r["n_requests"] > 3:
                res.append(("too-many-attempts", "the proxy saw %d upload requests in keep-alive scenario %s (limit 1 + maxWriteResponseRetryCount = 3)" % (r["n_requests"], r["name"]), rp))
        return res

    def model_check(self, ctx, obs):
        items, rows = [], []
        small_reads = 0
        too_large = 0
        for r in obs["scripted"]:
            if r["case"]["size"] > MODEL_MAX_SIZE:
                too_large += 1   # the model replays the stream as an explicit list: streams of megabytes are judged by the oracle only
                continue
            evs = []
            for e in r["events"]:
                if e["k"] == "read":
                    evs.append("ERead %d %d" % (e["plen"], e.get("n", 0)))
                    if e["plen"] < CAP:
                        small_reads += 1
                elif e["k"] == "fail":
                    evs.append("EFail")
                else:
                    evs.append("EAck")
            o = C.llit("(%d, %s, %s)" % (a["n"], C.blit(a["eof"]), C.blit(a["acked"])) for a in r["attempts"])
            items.append("check_upload %d %s %s %s" % (r["case"]["size"], C.llit(evs), o, C.blit(r["returned"])))
            rows.append(("scripted", r))
        for r in obs["lingering"]:
            c = r["case"]
            n2 = r["attempts"][1]["n"] if len(r["attempts"]) > 1 else 0
            items.append("check_lingering %d %d %d %d %d" % (c["size"], c["gate"], c["script"][0]["plen"], n2, r.get("lingered_bytes", 0)))
            rows.append(("lingering", r))
        header = ["From Coq Require Import ZArith List Bool.", "From IP Require Import Agent.ReplayBuffer Agent.ReplayCheck Lib.Util.", "Import ListNotations."]
        bad, dt = C.eval_code_items(ctx.work, "cases_c06", header, items, shard=1200)
        if bad is None:
            return [("cases_c06.v (model evaluation)", "coqc failed: " + dt[-600:], {})], 0, {}
        mism = []
        for idx, code in bad:
            kind, r = rows[idx]
            mism.append(("ReplayCheck.check_%s" % ("upload" if kind == "scripted" else "lingering"),
                         {1: "the model cannot replay the observed read/fail/ack events", 2: "the attempts observed differ from the model's", 3: "the model and the implementation disagree on whether the upload loop has returned"}.get(code, str(code)),
                         {"case": r["case"], "events": r["events"][:40], "attempts": r["attempts"], "returned": r["returned"]}))
        return mism, len(rows), {"coqc_s": round(dt, 2), "cases": len(rows), "reads_smaller_than_buffer": small_reads, "not_replayed_in_the_model(stream larger than %d bytes)" % MODEL_MAX_SIZE: too_large}

    def coverage(self, ctx, obs):
        hist = collections.Counter()
        plens = collections.Counter()
        for r in obs["scripted"]:
            c = r["case"]
            sc = c.get("script") or []
            hist["faults=%d" % len(sc)] += 1
            for s in sc:
                hist["fault:" + self._classify(s, c["size"])] += 1
            hist["size:%s" % ("<4096" if c["size"] < 4096 else "=4096" if c["size"] == 4096 else "<=8192" if c["size"] <= 8192 else ">8192")] += 1
            for e in r["events"]:
                if e["k"] == "read":
                    plens[e["plen"]] += 1
        for r in obs["transport"]:
            hist["transport:" + r["case"]["name"]] += 1
        for r in obs.get("keepalive", []):
            hist["keepalive:" + r.get("name", "?")] += 1
        allc = obs["scripted"] + obs["lingering"] + obs["transport"]
        distinct = {C.case_hash(r["case"]) for r in allc if (r["case"].get("script"))}
        return {"evaluations": len(allc), "distinct_nontrivial": len(distinct),
                "rule": "case = (stream size, write segmentation, per-attempt fault script); distinct by hash; non-trivial when at least one fault is scripted. Single-fault matrix kind x position class x size is enumerated exhaustively, multi-fault scripts are sampled",
                "samples": [obs["scripted"][0]["case"], obs["scripted"][len(obs["scripted"]) // 2]["case"], obs["lingering"][0]["case"], obs["transport"][-1]["case"]],
                "input_distribution": dict(hist), "observed_transport_read_sizes": {str(k): v for k, v in plens.items()}}


PROP = C06()
