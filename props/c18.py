"""C18 - the App Engine proxy routes to the most specific live backend."""
import collections

from lib import appeng as A
from lib import common as C
from lib.driver import Prop


class C18(Prop):
    pid = "C18"
    props_file = "Props/C18.v"
    model_targets = ["theories/App/Route.vo", "theories/App/AppCheck.vo"]
    technique = "Coq proof of longest-prefix selection (invariant over the iteration) and of the per-user lookup + regenerated liveness constants + differential run of mostSpecificMatchingBackend against the extracted model"
    level_text = ("C18_longest / C18_longest_backend / C18_no_match prove, for every path and every list of backends with arbitrary prefix lists, that the modelled selection returns a backend owning a "
                  "matching prefix of maximal length (the first such in iteration order) and fails iff nothing matches; C18_lookup / C18_lookup_complete prove own-backends-first, shared fallback only without an own match, "
                  "and liveness strictly inside the window; C18_depends_only / C18_other_users_irrelevant prove that nothing but the user's own backends, the shared ones and the liveness of the chosen backend enters the answer. The real mostSpecificMatchingBackend is run on bounded-exhaustive and random backend sets and must equal the model exactly; the real app (LookupBackend, hasBackend, 404) is run on a routing matrix with trackers aged across the window and on random histories and must agree with App/AppModel.v (which calls Route.lookup) step by step.")
    level_note = ("Trusted: Coq kernel, srcfacts (backendTimeout, sharedBackendUser), the harness. Modelled, not verified: strings.HasPrefix (= Coq String.prefix), the datastore query that "
                  "yields the per-user backend list and its key order (ties between equally long prefixes are a declared don't-care of the property oracle), time.Since. "
                  "Backend IDs are non-empty (enforced by parseBackend).")
    assumptions = [
        "strings.HasPrefix is modelled by Coq's String.prefix; len by String.length (byte strings)",
        "backend IDs are non-empty (parseBackend rejects empty IDs); the datastore filter EndUser= returns exactly the user's backends in key order",
        "LookupBackend/hasBackend/proxyHandler are tied to the model by the App Engine harness (real app binary against a fake datastore, trackers aged to 2 s .. 2 h around the window); mostSpecificMatchingBackend is also driven directly",
    ]
    OVERLAY = {"app/store/zz_verif_common_test.go": "app_store/verif_common_test.go",
               "app/store/zz_verif_c18_test.go": "app_store/verif_c18_test.go"}

    def harness(self, ctx):
        rc, out, p, dt = C.go_test_overlay(ctx.work, "./app/store/", "TestVerifC18Direct", self.OVERLAY, "direct.jsonl", ctx.seed, ctx.tier)
        rows = C.read_jsonl(p)
        if rc != 0 or not rows:
            raise RuntimeError("C18 harness did not run: rc=%s\n%s" % (rc, out[-2000:]))
        app = A.run(ctx, 40 if ctx.thorough else 6, 45, with_timeout=False, name="ae18.jsonl", faultp=0.0, bigp=0.0)
        return {"direct": rows, "histories": app["histories"]}

    @staticmethod
    def _best(r):
        best = -1
        owners = set()
        for b in r["backends"]:
            for p in b["prefixes"]:
                if r["path"].startswith(p):
                    if len(p) > best:
                        best, owners = len(p), {b["id"]}
                    elif len(p) == best:
                        owners.add(b["id"])
        return best, owners

    def oracle(self, ctx, obs):
        res = []
        for h in obs["histories"]:
            res += A.oracle_c18(h)
        for r in obs["direct"]:
            best, owners = self._best(r)
            rp = {"call": "store.mostSpecificMatchingBackend", "path": r["path"], "backends": r["backends"], "observed": r["result"],
                  "expected_one_of": sorted(owners)}
            if not r["deterministic"]:
                res.append(("direct:nondeterministic", "two calls with the same arguments disagree", rp))
            if best < 0:
                if r["result"] is not None:
                    res.append(("direct:match-without-prefix", "returned %r although no prefix matches %r" % (r["result"], r["path"]), rp))
            elif r["result"] is None:
                res.append(("direct:no-match-reported", "reported no backend although a prefix of length %d matches %r" % (best, r["path"]), rp))
            elif r["result"] not in owners:
                res.append(("direct:not-longest", "returned %r for %r; the longest matching prefix (length %d) belongs to %s" % (r["result"], r["path"], best, sorted(owners)), rp))
        return res

    def model_check(self, ctx, obs):
        rows = obs["direct"]
        mism, total = [], 0
        shard = 1500
        dt_all = 0
        for s in range(0, len(rows), shard):
            part = rows[s:s + shard]
            cases = []
            for r in part:
                bs = C.llit("{| bid := %s; buser := EmptyString; euser := EmptyString; prefixes := %s |}" % (C.slit(b["id"]), C.llit(C.slit(p) for p in b["prefixes"])) for b in r["backends"])
                res = "None" if r["result"] is None else "(Some %s)" % C.slit(r["result"])
                cases.append("(%s, %s, %s)" % (C.slit(r["path"]), bs, res))
            body = "\n".join([
                "From Coq Require Import ZArith String List Bool.", "From IP Require Import App.Route.", "Import ListNotations.", "Open Scope list_scope.",
                "Definition opt_eqb (a b : option string) : bool := match a, b with None, None => true | Some x, Some y => String.eqb x y | _, _ => false end.",
                "Fixpoint bad (i : Z) (l : list (string * list backend * option string)) : list Z := match l with [] => [] | (p, bs, r) :: t => if opt_eqb (most_specific p bs) r then bad (i+1)%Z t else i :: bad (i+1)%Z t end.",
                "Definition cases : list (string * list backend * option string) := " + C.llit(cases) + ".",
                "Definition verif_result : list Z := Eval vm_compute in bad 0%Z cases."])
            txt, out, dt = C.eval_cases(ctx.work, "cases_c18_%d" % s, body)
            dt_all += dt
            if txt is None:
                return [("cases_c18.v (model evaluation)", "coqc failed: " + out[-600:], {})], total, {}
            for i in C.parse_z_list(txt):
                r = part[i]
                mism.append(("Route.most_specific", "implementation returned %r where the model computes otherwise" % (r["result"],), {"path": r["path"], "backends": r["backends"], "observed": r["result"]}))
            total += len(part)
        # LookupBackend + hasBackend + proxyHandler's 404, through the real app against the fake datastore
        m2, n2, info2 = A.model_check(ctx, obs["histories"], name="cases_app18")
        return mism + m2, total + n2, {"coqc_s": round(dt_all, 2), "cases": total, "app_histories": info2}

    def coverage(self, ctx, obs):
        rows = obs["direct"]
        distinct = {}
        for r in rows:
            distinct[C.case_hash({"p": r["path"], "b": r["backends"]})] = r
        nontrivial = 0
        hist = collections.Counter()
        for r in distinct.values():
            nmatch = sum(1 for b in r["backends"] for p in b["prefixes"] if r["path"].startswith(p))
            hist["matching_prefixes=%s" % (nmatch if nmatch < 3 else "3+")] += 1
            if nmatch >= 2:
                nontrivial += 1
        return {"evaluations": len(rows), "distinct_nontrivial": nontrivial,
                "rule": "case = (path, backend list); distinct by hash of the case; non-trivial when at least two prefixes match the path (the selection has something to decide)",
                "samples": [rows[5], rows[len(rows) // 2], rows[-1]],
                "input_distribution": dict(hist), "exhaustive": False}


PROP = C18()
