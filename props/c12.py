"""C12 - the websocket shim answers every call and survives any call order."""
import collections
import os
import threading

from lib import common as C
from lib import servsched
from lib.driver import Prop
from props.c11 import OVERLAY

CALLS = {"open": "COpen", "open-malformed": "COpenMalformed", "data": "CData", "data-unknown": "CDataUnknown", "data-malformed": "CDataMalformed", "data-badmsg": "CDataBadMsg",
         "poll": "CPoll", "poll-unknown": "CPollUnknown", "poll-malformed": "CPollMalformed", "close": "CClose", "close-unknown": "CCloseUnknown", "close-malformed": "CCloseMalformed",
         "backend-send": "CBackendSend", "backend-close": "CBackendClose"}


class C12(Prop):
    pid = "C12"
    props_file = "Props/C12.v"
    model_targets = ["theories/Websockets/ShimCheck.vo", "theories/Websockets/ShimTableCheck.vo"]
    technique = "Coq LTS of the shim handlers as interleavable programs: invariant proof that the guarded Close/Send never panic for any number of racing calls and any interleaving, computed witnesses for the repaired defects; exact sequential status semantics; bounded-exhaustive sequential runs and repeated concurrent runs of the real handlers under the race detector"
    level_text = ("C12_no_panic proves for any number of close and data calls racing on one session, any queue capacity and any interleaving of their atomic actions with the writer goroutine and the backend that the handlers never send on or close a closed channel; "
                  "C12_replies that every answer is 200 or 400; C12_bounded_work / C12_progress / C12_progress_when_backend_gone that the calls take a bounded number of actions in any interleaving and that an unanswered call can always take its next action unless it waits for room in a full queue whose writer can still take a message (no wedge caused by the handlers); C12_sharp_double_close / C12_sharp_data_vs_close are computed schedules on the model of the code before the repair that do panic. The real handlers are run on every call sequence up to length 3 (4 in the thorough tier) "
                  "over 14 call kinds (valid, unknown, closed, malformed) and must answer exactly as the sequential model; racing pairs/triples on one session are repeated under the race detector with a recover wrapper (a panic there would kill the agent); the 20 s poll time-out is exercised once.")
    level_note = ("Trusted: Coq kernel, harness, race detector. Modelled, not verified: sync.Map, Go channel semantics (send on / close of a closed channel panics; a full channel blocks), gorilla/websocket. "
                  "PARTIAL: 'every call gets an answer' is proved as absence of panic and checked as absence of hangs on the explored schedules; a backend that stops reading its socket can still stall data/close calls (back-pressure), which no bounded run or safety theorem excludes.")
    partial_note = "the handlers never leave a call hanging by themselves (C12_bounded_work, C12_progress*); a writer goroutine blocked on a backend that neither reads nor closes is outside the model, and wall-clock answers (408 after 20 s) are observed, not proved"
    assumptions = ["handler steps are atomic at the granularity of one sync.Map / channel / context operation", "the mutex added by the repair makes Close and SendClientMessage mutually exclusive"]

    def harness(self, ctx):
        obs = {}
        res408 = {}

        def run408():
            w = os.path.join(ctx.work, "p408")
            os.makedirs(w, exist_ok=True)
            rc, out, p, dt = C.go_test_overlay(w, "./agent/websockets/", "TestVerifC12Poll408$", OVERLAY, "poll408.jsonl", ctx.seed, ctx.tier, timeout=300)
            res408["rows"], res408["rc"], res408["out"] = C.read_jsonl(p), rc, out
        th = threading.Thread(target=run408)
        th.start()
        rc, out, p, dt = C.go_test_overlay(ctx.work, "./agent/websockets/", "TestVerifC12Seq$", OVERLAY, "seq.jsonl", ctx.seed, ctx.tier, timeout=2400)
        obs["seq"] = [r for r in C.read_jsonl(p) if not r.get("skipped")]
        if rc != 0 or not obs["seq"]:
            raise RuntimeError("C12 seq harness did not run: rc=%s\n%s" % (rc, out[-2000:]))
        rc, out, p, dt = C.go_test_overlay(ctx.work, "./agent/websockets/", "TestVerifC12Shapes$", OVERLAY, "shapes.jsonl", ctx.seed, ctx.tier, timeout=600)
        obs["shapes"] = C.read_jsonl(p)
        obs["shapes_tail"] = out[-3000:]
        rc, out, p, dt = C.go_test_overlay(ctx.work, "./agent/websockets/", "TestVerifC12Table$", OVERLAY, "table.jsonl", ctx.seed, ctx.tier, timeout=1800)
        obs["table"] = [r for r in C.read_jsonl(p) if r.get("kind") == "table"]
        if rc != 0 or not obs["table"]:
            raise RuntimeError("C12 table harness did not run: rc=%s\n%s" % (rc, out[-2000:]))
        rc, out, p, dt = C.go_test_overlay(ctx.work, "./agent/websockets/", "TestVerifC12Batch$", OVERLAY, "batch.jsonl", ctx.seed, ctx.tier, timeout=600)
        obs["batch"] = C.read_jsonl(p)
        if rc != 0 or not obs["batch"]:
            raise RuntimeError("C12 batch harness did not run: rc=%s\n%s" % (rc, out[-2000:]))
        rc, out, p, dt = C.go_test_overlay(ctx.work, "./agent/websockets/", "TestVerifC12(Deaf|StalledThenGone)$", OVERLAY, "deaf.jsonl", ctx.seed, ctx.tier, timeout=600)
        rows = C.read_jsonl(p)
        obs["deaf"] = [r for r in rows if r.get("kind") != "stalled-then-gone"]
        obs["stalled"] = [r for r in rows if r.get("kind") == "stalled-then-gone"]
        if rc != 0 or not obs["deaf"] or not obs["stalled"]:
            raise RuntimeError("C12 deaf-backend harness did not run: rc=%s\n%s" % (rc, out[-2000:]))
        rc, out, p, dt = C.go_test_overlay(ctx.work, "./agent/websockets/", "TestVerifC12Conc$", OVERLAY, "conc.jsonl", ctx.seed, ctx.tier, race=True, timeout=2400)
        obs["conc"] = C.read_jsonl(p)
        obs["races"] = servsched.race_reports(out)
        if not obs["conc"] or (rc != 0 and not obs["races"]):
            raise RuntimeError("C12 conc harness did not run: rc=%s\n%s" % (rc, out[-2000:]))
        th.join()
        obs["poll408"] = res408.get("rows") or []
        if not obs["poll408"]:
            raise RuntimeError("C12 poll-408 harness did not run: %s" % (res408.get("out", "")[-1500:],))
        return obs

    def oracle(self, ctx, obs):
        res = []
        for sig, txt in obs["races"]:
            res.append((sig, "the race detector reported a data race in the shim handlers", {"report": txt}))
        for r in obs.get("table") or []:
            for k, o in enumerate(r.get("ops") or []):
                if o.get("op") == "open" and not o.get("dial_ok") and (o.get("panic") or o.get("status") != 500):
                    res.append(("open:failed-dial-not-answered-500:" + str(o.get("why")), "an open call whose dial of the backend fails (%s) %s instead of being answered 500" % (
                        o.get("why"), "made the handler panic (in the agent: the process ends, with every session)" if o.get("panic") else "was answered %s" % o.get("status")),
                        {"driver": "TestVerifC12Table", "history_index": r.get("index"), "call_index": k, "call": o, "ops": (r.get("ops") or [])[:k + 1]}))
        for r in obs.get("batch") or []:
            rp = {"driver": "TestVerifC12Batch: sessions A, B open and C closed; one data post naming several sessions", "observed": r}
            if r.get("error"):
                res.append(("batch:open-failed", r["error"], rp))
                continue
            if r["status"] != r["expected_status"]:
                res.append(("batch:call-naming-unknown-session-accepted" if r["expected_status"] == 400 else "batch:unexpected-status", "data post %s answered %s, expected %s" % (r["post"], r["status"], r["expected_status"]), rp))
            for side in ("a", "b"):
                got, allowed = r.get(side + "_received") or [], r.get(side + "_allowed") or []
                if [m for m in got if m not in allowed]:
                    res.append(("batch:message-delivered-to-another-session", "session %s received %s; only %s were addressed to it" % (side.upper(), got, allowed), rp))
                elif r["status"] == 200 and got != allowed:
                    res.append(("batch:message-lost", "the post was answered 200 but session %s received %s instead of %s" % (side.upper(), got, allowed), rp))
        for r in obs.get("stalled") or []:
            rp = {"driver": "TestVerifC12StalledThenGone: 512 KiB data posts to a backend that does not read, until a call waits for room; then the backend's socket is closed", "observed": r}
            if r.get("error"):
                res.append(("stalled:harness-precondition", r["error"], rp))
                continue
            unanswered = [n for n, st in (("the data call that was waiting for room", r.get("waiting_call_status")), ("a later data call", min(r.get("later_data_statuses") or [0])), ("the close call", r.get("close_status"))) if st == -1]
            if unanswered:
                res.append(("stalled:call-never-answered-after-backend-gone", "after the stalled backend went away %s got no HTTP answer" % " and ".join(unanswered), rp))
        for r in obs.get("deaf") or []:
            rp = {"driver": "TestVerifC12Deaf: open, then close, against a backend that is %s; the backend reports whether the agent's end of its socket went away within 3 s" % r["backend"], "observed": r}
            if r.get("open_status") != 200:
                res.append(("deaf:open-failed", "open answered %s" % r.get("open_status"), rp))
            elif r.get("close_status") != 200 or not r.get("backend_socket_closed"):
                res.append(("deaf:close-did-not-close-backend-websocket", "close answered %s, but the backend websocket (%s) was not closed by the agent: %s" % (r.get("close_status"), r["backend"], r.get("backend_saw")), rp))
        shapes = obs.get("shapes") or []
        if not any(r.get("kind") == "shapes-survived" for r in shapes):
            import re
            m = re.search(r"(panic: [^\n]*|fatal error: [^\n]*)", obs.get("shapes_tail", ""))
            last = [r for r in shapes if r.get("kind") == "shape"][-1:] or [{}]
            res.append(("shape:agent-crashed", "the process ended while data posts with unusual `msg` shapes were made (%s); last completed shape: %r" % (m.group(1) if m else "see output", last[0].get("shape")),
                        {"driver": "TestVerifC12Shapes", "last_completed": last[0], "output_tail": obs.get("shapes_tail", "")[-1500:]}))
        for r in shapes:
            if r.get("kind") != "shape":
                continue
            rp = {"driver": "TestVerifC12Shapes: one data post whose msg is the given JSON value, then a well-formed one", "observed": r}
            if r.get("error"):
                res.append(("shape:open-failed", r["error"], rp))
            elif r["status"] not in (200, 400, 500):
                res.append(("shape:unexpected-status", "data post with msg %s answered %s" % (r["shape"], r["status"]), rp))
            elif r["followup_status"] != 200 or not r["followup_delivered"]:
                res.append(("shape:session-broken-by-malformed-message", "after a data post with msg %s the session no longer delivers (status %s, delivered %s)" % (r["shape"], r["followup_status"], r["followup_delivered"]), rp))
        for r in obs["seq"]:
            rp = {"driver": "TestVerifC12Seq: shim calls one at a time on a fresh session", "calls": r.get("ops"), "statuses": r.get("statuses"), "notes": r.get("notes")}
            if r.get("error"):
                res.append(("seq:open-failed", r["error"], rp))
                continue
            for op, st in zip(r["ops"], r["statuses"]):
                if st == -2:
                    res.append(("seq:panic", "call %s panicked" % op, rp))
                elif st == -3:
                    res.append(("seq:call-hung", "call %s did not return" % op, rp))
                elif st != -1 and st not in (200, 400, 408, 500):
                    res.append(("seq:unexpected-status", "call %s answered %s" % (op, st), rp))
                elif st == 200 and op in ("data-unknown", "poll-unknown", "close-unknown", "data-malformed", "poll-malformed", "close-malformed", "open-malformed", "data-badmsg"):
                    res.append(("seq:bad-call-accepted", "call %s was answered 200" % op, rp))
            # when the backend closes first, the polls deliver what was already received, then report the session closed
            ops, sts = r["ops"], r["statuses"]
            for i, op in enumerate(ops):
                if op != "backend-send":
                    continue
                rest = ops[i + 1:]
                if "backend-close" in rest:
                    j = i + 1 + rest.index("backend-close")
                    # (a backend that had already closed before the send has sent nothing)
                    if not any(o in ("poll", "close", "open", "backend-close") for o in ops[:i]) and not any(o in ("poll", "close", "open") for o in ops[:j]):
                        after = ops[j + 1:]
                        if after and after[0] == "poll" and sts[j + 1] != 200:
                            res.append(("seq:buffered-messages-lost-at-backend-close", "backend sent a message and closed; the first poll afterwards answered %s instead of delivering the message" % sts[j + 1], rp))
                break
            # calls naming a closed session are rejected with 400
            closed_by = None
            for op, st in zip(ops, sts):
                # (after the backend closed, a poll may still deliver buffered messages and a close still closes the session)
                if closed_by and st == 200 and ((closed_by == "close" and op in ("data", "poll", "close")) or (closed_by == "backend-close" and op == "data")):
                    res.append(("seq:call-on-closed-session-accepted", "%s after %s was answered 200" % (op, closed_by), rp))
                    break
                if op == "close" and st == 200:
                    closed_by = "close"
                elif op == "backend-close":
                    closed_by = closed_by or "backend-close"
            # a close must be seen by the backend
            if "close" in r["ops"] and r["statuses"][r["ops"].index("close")] == 200 and not r.get("backend_saw_end"):
                res.append(("seq:close-not-propagated", "close answered 200 but the backend connection stayed open", rp))
        for r in obs["conc"]:
            for k, n in (r.get("outcomes") or {}).items():
                rp = {"driver": "TestVerifC12Conc: calls released together on one session (%d repetitions)" % r["reps"], "scenario": r["scenario"], "outcome": k, "occurrences": n}
                if "PANIC" in k:
                    res.append(("conc:panic:" + r["scenario"], "a handler panicked (%s)" % k.strip(), rp))
                elif "HUNG" in k:
                    res.append(("conc:call-hung:" + r["scenario"], "a call did not return (%s)" % k.strip(), rp))
                elif "open-failed" in k:
                    res.append(("conc:open-failed", k, rp))
        for r in obs["poll408"]:
            if r["status"] != 408 or not (15 <= r["seconds"] <= 30):
                res.append(("poll-timeout-wrong", "idle poll answered %s after %.1f s" % (r["status"], r["seconds"]), r))
        return res

    def model_check(self, ctx, obs):
        items, rows = [], []
        for r in obs["seq"]:
            if r.get("error") or any(s in (-2, -3) for s in r["statuses"]):
                continue
            if "open" in r["ops"] and False:
                continue
            items.append("seq_case_ok %s %s" % (C.llit(CALLS[o] for o in r["ops"]), C.llit(str(0 if s == -1 else s) for s in r["statuses"])))
            rows.append(r)
        mism, dt_all = [], 0
        shard = 1500
        for s0 in range(0, len(items), shard):
            body = "\n".join(["From Coq Require Import ZArith List Bool Arith.", "From IP Require Import Websockets.Shim Websockets.ShimCheck Lib.Util.", "Import ListNotations.",
                              "Definition oks : list bool := " + C.llit(items[s0:s0 + shard]) + ".",
                              "Definition verif_result : list Z := Eval vm_compute in (bad_indices (fun b : bool => b) 0%Z oks)."])
            txt, out, dt = C.eval_cases(ctx.work, "cases_c12_%d" % s0, body)
            dt_all += dt
            if txt is None:
                return [("cases_c12.v (model evaluation)", "coqc failed: " + out[-800:], {})], 0, {}
            for i in C.parse_z_list(txt):
                r = rows[s0 + i]
                mism.append(("ShimCheck.seq_case_ok", "the statuses of a sequential call sequence differ from the model's", {"calls": r["ops"], "statuses": r["statuses"], "notes": r.get("notes")}))
        # several sessions: statuses, session IDs, polled messages, what each backend received  vs  Websockets/ShimTable.v
        def num(x):
            return int(str(x)[1:]) if str(x)[:1] in ("m", "s") else int(x)
        titems, trows = [], []
        for r in obs.get("table") or []:
            calls, outs, ok = [], [], True
            for o in r.get("ops") or []:
                k = o["op"]
                try:
                    if k == "open":
                        calls.append("TOpen %s" % C.blit(o["dial_ok"]))
                        outs.append("OOpened %d" % int(o["id"]) if o["status"] == 200 and o.get("id") else "OStatus %d" % o["status"])
                    elif k == "data":
                        calls.append("TData %s" % C.llit("(%d, %d)" % (int(e[0]), int(e[1])) for e in o["elems"]))
                        outs.append("OStatus %d" % o["status"])
                    elif k == "poll":
                        calls.append("TPoll %d" % int(o["id"]))
                        outs.append("OPolled %s" % C.llit(str(num(m)) for m in o.get("msgs") or []) if o["status"] == 200 else "OStatus %d" % o["status"])
                    elif k == "close":
                        calls.append("TClose %d" % int(o["id"]))
                        outs.append("OStatus %d" % o["status"])
                    elif k == "backend-send":
                        calls.append("TBackendSend %d %d" % (int(o["id"]), int(o["msg"])))
                        outs.append("ONone")
                    elif k == "backend-close":
                        calls.append("TBackendClose %d" % int(o["id"]))
                        outs.append("ONone")
                except (ValueError, TypeError):
                    ok = False
            if not ok:
                continue
            finals = C.llit("(%d, %s)" % (int(i), C.llit(str(num(m)) for m in (l or []))) for i, l in (r.get("backend_received") or {}).items())
            titems.append("table_case %s %s %s" % (C.llit(calls), C.llit(outs), finals))
            trows.append(r)
        bad, tdt = C.eval_code_items(ctx.work, "cases_c12_table", ["From Coq Require Import ZArith List Bool Arith.", "From IP Require Import Websockets.ShimTable Websockets.ShimTableCheck Lib.Util.", "Import ListNotations."], titems, shard=300)
        if bad is None:
            return [("cases_c12_table.v (model evaluation)", "coqc failed: " + tdt[-800:], {})], len(items), {}
        for idx, code in bad:
            r = trows[idx]
            what = "what a backend received differs from the model's" if code == 2 else "the answer to call %d (%s) differs from the model's" % (code - 10, (r["ops"][code - 10] if 0 <= code - 10 < len(r["ops"]) else "?"))
            mism.append(("ShimTableCheck.table_case", "history over several sessions: " + what, {"history_index": r["index"], "ops": r["ops"][:60], "backend_received": r.get("backend_received")}))
        return mism, len(items) + len(titems), {"coqc_s": round(dt_all + tdt, 2), "cases": len(items), "table_histories": len(titems), "table_calls": sum(len(r.get("ops") or []) for r in trows)}

    def coverage(self, ctx, obs):
        hist = collections.Counter()
        for r in obs["seq"]:
            for op, st in zip(r.get("ops") or [], r.get("statuses") or []):
                hist["%s->%s" % (op, st)] += 1
        conc = {r["scenario"]: r["outcomes"] for r in obs["conc"]}
        return {"evaluations": len(obs["seq"]) + sum(r["reps"] for r in obs["conc"]), "distinct_nontrivial": len({tuple(r.get("ops") or []) for r in obs["seq"] if len(r.get("ops") or []) >= 2}),
                "rule": "sequential: every sequence of 1..3 (thorough: 4) calls over 14 call kinds on a fresh session, enumerated exhaustively, non-trivial from length 2; concurrent: 9 racing scenarios x repetitions",
                "samples": [{"calls": obs["seq"][50].get("ops"), "statuses": obs["seq"][50].get("statuses")}, {"scenario": obs["conc"][0]["scenario"], "outcomes": obs["conc"][0]["outcomes"]}],
                "input_distribution": dict(hist), "concurrent_outcomes": conc, "exhaustive": True, "poll_timeout_seconds": [r["seconds"] for r in obs["poll408"]]}


PROP = C12()
