"""C02 - the backend receives the client's request unaltered."""
import collections
import re
import os

from lib import common as C
from lib.driver import Prop

OVERLAY = {"agent/zz_verif_common_test.go": "agent/verif_common_test.go",
           "agent/zz_verif_fakeproxy_test.go": "agent/verif_fakeproxy_test.go",
           "agent/zz_verif_e2e_test.go": "agent/verif_e2e_test.go",
           "agent/zz_verif_c02_test.go": "agent/verif_c02_test.go"}
HOP = ["Connection", "Keep-Alive", "Proxy-Authenticate", "Proxy-Authorization", "Te", "Trailer", "Transfer-Encoding", "Upgrade"]
FRAMING = ["Host", "Content-Length", "Transfer-Encoding"]
TCHAR = set("!#$%&'*+-.^_`|~0123456789abcdefghijklmnopqrstuvwxyzABCDEFGHIJKLMNOPQRSTUVWXYZ")


def canon(name):
    if not all(c in TCHAR for c in name):
        return name
    out, up = [], True
    for c in name:
        out.append(c.upper() if up else c.lower())
        up = c == "-"
    return "".join(out)


def coq_str(s):
    b = s.encode("utf-8")
    if all(32 <= x < 127 for x in b):
        return C.slit(s)
    return "".join('(String (Ascii.ascii_of_nat %d) ' % x for x in b) + "EmptyString" + ")" * len(b)


def build_server(ctx, race=False):
    out = os.path.join(ctx.work, "server-race" if race else "server")
    ok, log, dt = C.build_repo_binary("server", out, race=race)
    if not ok:
        raise RuntimeError("cannot build /repo/server: " + log[-1500:])
    return out


class C02(Prop):
    pid = "C02"
    props_file = "Props/C02.v"
    model_targets = ["theories/Server/HopFilterCheck.vo"]
    technique = "Coq proof that the proxy's header filter (table regenerated from the source) removes exactly the hop-by-hop fields for every header list + library stages specified and compared; end-to-end differential run: raw client bytes -> real proxy binary -> real agent code -> recording backend"
    level_text = ("C02_filter_exact / C02_unaltered prove for every request (any field names, casings, multiplicities, values) that the modelled path forwards method, target, Host and body as they are, every end-to-end field with its values in order, "
                  "and none of the hop-by-hop fields of the table regenerated from isHopByHopHeader (C02_table: the table is exactly the required set). The library stages (Request.Write/ReadRequest, ReverseProxy) are specified, not verified; "
                  "the end-to-end run sends generated raw requests (extension methods, escaped paths, queries, repeated/mixed-case/empty/8 KiB headers, hop-by-hop names in three casings, bodies at buffer boundaries and above 1 MB, Content-Length and chunked) "
                  "through the real proxy binary and agent code and compares the backend's view with the model field by field.")
    level_note = ("Trusted: Coq kernel, srcfacts (case list of isHopByHopHeader), harness. Modelled, not verified: net/http request parsing and serialisation, httputil.ReverseProxy (drops its hopHeaders, keeps everything else, keeps the client's Host). "
                  "Declared don't-cares: fields nominated by the client's Connection header; framing (Host, Content-Length, Transfer-Encoding); fields the client did not send (defaults such as User-Agent, Accept-Encoding).")
    assumptions = [
        "net/http's ReadRequest/Request.Write round-trip keeps method, request target, Host, header values per name in order and body bytes (compared on every run, not proved)",
        "httputil.ReverseProxy removes exactly its hop-by-hop list from what the agent hands it",
        "well-formed requests only: no ';' in queries, valid %-escapes, token field names, asterisk-form excluded (net/http answers OPTIONS * itself)",
    ]

    def harness(self, ctx):
        srv = build_server(ctx)
        rc, out, p, dt = C.go_test_overlay(ctx.work, "./agent/", "TestVerifC02$", OVERLAY, "c02.jsonl", ctx.seed, ctx.tier, timeout=2400, extra_env={"VERIF_SERVER_BIN": srv})
        rows = C.read_jsonl(p)
        cases = [r for r in rows if r.get("kind") == "c02"]
        crash = C.panic_excerpt(out) if rc != 0 else None
        if (rc != 0 and not crash) or (not cases and not crash):
            raise RuntimeError("C02 harness did not run: rc=%s\n%s" % (rc, out[-2000:]))
        # second pass: the agent's identity flags on
        rc2, out2, p2, dt2 = C.go_test_overlay(ctx.work, "./agent/", "TestVerifC02$", OVERLAY, "c02_identity.jsonl", ctx.seed + 1, ctx.tier, timeout=2400, extra_env={"VERIF_SERVER_BIN": srv, "VERIF_C02_IDENTITY": "1"})
        cases2 = [r for r in C.read_jsonl(p2) if r.get("kind") == "c02"]
        crash = crash or (C.panic_excerpt(out2) if rc2 != 0 else None)
        if (rc2 != 0 and not crash) or (not cases2 and not crash):
            raise RuntimeError("C02 harness (identity flags) did not run: rc=%s\n%s" % (rc2, out2[-2000:]))
        return {"cases": cases + cases2, "races": [r for r in rows if r.get("kind") == "race"], "crash": crash}

    @staticmethod
    def _client_values(req):
        d = collections.OrderedDict()
        for n, v in req["fields"]:
            d.setdefault(canon(n), []).append(v)
        if req.get("expect_continue"):
            d.setdefault("Expect", []).append("100-continue")
        return d

    def _ignored(self, req):
        ign = set(FRAMING)
        for n, v in req["fields"]:
            if canon(n) == "Connection":
                for t in v.split(","):
                    ign.add(canon(t.strip()))
        return ign

    def oracle(self, ctx, obs):
        res = []
        if obs.get("crash"):
            m = re.search(r"(panic: [^\n]*|fatal error: [^\n]*)", obs["crash"])
            res.append(("agent-crashed", "the agent's request path (run in-process, requests forwarded concurrently) ended the process: %s" % (m.group(1) if m else "see excerpt"),
                        {"driver": "TestVerifC02: raw client -> real proxy binary -> real agent code -> recording backend, 10 requests in flight", "output_excerpt": obs["crash"]}))
        for r in obs["cases"]:
            q, s = r["req"], r["seen"]
            rp = {"driver": "TestVerifC02: raw client -> real proxy binary -> real agent code -> recording backend", "client_request": q, "backend_saw": s,
                  "client_status": r["client_status"], "client_err": r["client_err"]}
            if s is None:
                res.append(("request-not-forwarded", "request %s %s never reached the backend (client status %s %s)" % (q["method"], q["target"], r["client_status"], r["client_err"]), rp))
                continue
            if s["method"] != q["method"]:
                res.append(("method-changed", "method %r arrived as %r" % (q["method"], s["method"]), rp))
            if s["uri"] != q["target"]:
                res.append(("target-changed", "request target %r arrived as %r" % (q["target"], s["uri"]), rp))
            if s["host"] != q["host"]:
                res.append(("host-changed", "Host %r arrived as %r" % (q["host"], s["host"]), rp))
            if s["body_len"] != q["body_len"] or s["body_hash"] != r["body_hash"]:
                cls = "<=4096" if q["body_len"] <= 4096 else "<=65537" if q["body_len"] <= 65537 else ">64K"
                res.append(("body-changed:" + cls, "body of %d bytes arrived as %d bytes (hash %s vs %s)" % (q["body_len"], s["body_len"], r["body_hash"], s["body_hash"]), rp))
            cv = self._client_values(q)
            ign = self._ignored(q)
            if r.get("identity_flags"):
                ign |= {"Authorization", "X-Inverting-Proxy-User-Id"}
                rp["agent_flags"] = "--forward-user-id --strip-credentials"
            seen = s["header"] or {}
            for k, vals in cv.items():
                if k in ign:
                    continue
                if k in HOP or k == "Proxy-Connection":   # Proxy-Connection: non-standard hop-by-hop, neither required nor forbidden
                    continue
                if seen.get(k, []) != vals:
                    sig = "e2e-header-changed"
                    if k == "Accept-Encoding" and vals and vals[0] == "" and seen.get(k) == vals + ["gzip"]:
                        sig = "accept-encoding-empty-first-value:gzip-appended"
                    res.append((sig, "field %s sent as %r arrived as %r" % (k, vals, seen.get(k)), rp))
            for k in HOP:
                if k in seen and k not in ("Transfer-Encoding",):
                    res.append(("hop-by-hop-forwarded:" + k, "hop-by-hop field %s reached the backend with %r" % (k, seen[k]), rp))
        for r in obs["races"]:
            res.append(("data-race:proxy-binary", "race detector report from the proxy binary", {"report": r["report"][:3000]}))
        return res

    def model_check(self, ctx, obs):
        rows = [r for r in obs["cases"] if r["seen"] is not None]
        items = []
        for r in rows:
            q = r["req"]
            fields = [(n, v) for n, v in q["fields"]]
            if q.get("expect_continue"):
                fields.append(("Expect", "100-continue"))
            seen = r["seen"]["header"] or {}
            ign = sorted(self._ignored(q) | ({"Accept-Encoding"} if any(canon(n) == "Accept-Encoding" and v == "" for n, v in fields) else set()))
            items.append("c02_ok %s %s %s" % (C.llit("(%s, %s)" % (coq_str(n), coq_str(v)) for n, v in fields), C.llit(coq_str(k) for k in ign),
                                             C.llit("(%s, %s)" % (coq_str(k), C.llit(coq_str(v) for v in vs)) for k, vs in seen.items())))
        mism, total, dt_all = [], 0, 0
        shard = 400
        for s0 in range(0, len(items), shard):
            body = "\n".join(["From Coq Require Import ZArith String List Bool Ascii.", "From IP Require Import Server.HopFilterCheck Lib.Util.", "Import ListNotations.", "Open Scope string_scope.", "Open Scope list_scope.",
                              "Definition oks : list bool := " + C.llit(items[s0:s0 + shard]) + ".",
                              "Definition verif_result : list Z := Eval vm_compute in (bad_indices (fun b : bool => b) 0%Z oks)."])
            txt, out, dt = C.eval_cases(ctx.work, "cases_c02_%d" % s0, body)
            dt_all += dt
            if txt is None:
                return [("cases_c02.v (model evaluation)", "coqc failed: " + out[-600:], {})], total, {}
            for i in C.parse_z_list(txt):
                r = rows[s0 + i]
                mism.append(("HopFilterCheck.c02_ok", "the header fields seen by the backend differ from the model's to_backend", {"client_request": r["req"], "backend_saw": r["seen"]["header"]}))
            total += len(items[s0:s0 + shard])
        return mism, total, {"coqc_s": round(dt_all, 2), "cases": total}

    def coverage(self, ctx, obs):
        rows = obs["cases"]
        hist = collections.Counter()
        added = collections.Counter()
        for r in rows:
            q = r["req"]
            hist["method:" + q["method"]] += 1
            b = q["body_len"]
            hist["body:%s" % ("0" if b == 0 else "<=4097" if b <= 4097 else "<=65537" if b <= 65537 else ">=1MB" if b >= 999999 else "other")] += 1
            hist["framing:%s" % ("chunked" if q["chunked"] else "length" if b or q["method"] in ("POST", "PUT", "PATCH") else "none")] += 1
            hist["fields:%s" % ("<=5" if len(q["fields"]) <= 5 else "<=15" if len(q["fields"]) <= 15 else ">15")] += 1
            if any(canon(n) in HOP or canon(n) == "Proxy-Connection" for n, v in q["fields"]):
                hist["has_hop_by_hop"] += 1
            if r["seen"]:
                sent = {canon(n) for n, v in q["fields"]}
                for k in (r["seen"]["header"] or {}):
                    if k not in sent:
                        added[k] += 1
        distinct = {C.case_hash([r["req"]["method"], r["req"]["target"], r["req"]["fields"], r["req"]["body_len"], r["req"]["chunked"]]) for r in rows if len(r["req"]["fields"]) >= 2}
        return {"evaluations": len(rows), "distinct_nontrivial": len(distinct),
                "rule": "case = one raw request (method, target, Host, field list, body, framing); distinct by hash; non-trivial with at least two header fields besides the case marker",
                "samples": [rows[0]["req"], rows[len(rows) // 2]["req"]], "input_distribution": dict(hist), "fields_added_on_the_path": dict(added)}


PROP = C02()
