"""C07 - one failing request never takes down the agent or other requests."""
import collections

from lib import common as C
from lib import servsched
from lib.driver import Prop

OVERLAY = {"agent/zz_verif_common_test.go": "agent/verif_common_test.go",
           "agent/zz_verif_fakeproxy_test.go": "agent/verif_fakeproxy_test.go",
           "agent/zz_verif_c07_test.go": "agent/verif_c07_test.go"}
STAGE = {"list": None, "fetch": "SFetch", "upload": "SUpload", "shim": "SShimInput"}
BACKEND_STAGE = {"unreachable": "SConnect", "close-before-headers": "SBackendHeaders", "close-mid-headers": "SBackendHeaders", "malformed-status": "SBackendHeaders", "garbage": "SBackendHeaders",
                 "reset-mid-body": "SBackendBody", "close-mid-chunked": "SBackendBody", "bad-chunk": "SBackendBody", "huge-header": None}


# 14 consecutive failures: back-off 1, 2, 4, ... 2048 ms, then the 3 s cap twice, each +10 % jitter at most, plus slack for the probes
LONG_OUTAGE_MS = int(1.1 * (4095 + 2 * 3000)) + 1500


class C07(Prop):
    pid = "C07"
    props_file = "Props/C07.v"
    model_targets = ["theories/Agent/Isolation.vo"]
    technique = "Coq frame and invariant proofs over all fault sequences for the worker-per-request model, with the set of fatal-exit call sites reachable from the request path regenerated from the source (name-resolved call graph) + exhaustive fault-point x fault-kind injection into the real agent code among healthy probe requests under the race detector"
    level_text = ("C07_frame proves that an event of one request's worker leaves every other worker unchanged; C07_no_exit that no sequence of faults (any stage, any kind, any number) ends the agent given that no log.Fatal / os.Exit / panic call is reachable from the per-request code - a fact regenerated from the source "
                  "on every run (C07_no_fatal_sites); C07_served_after that requests listed afterwards are served normally; C07_unreachable_is_502. The real agent code (plain and with shim + sessions) is run under -race with a stream of healthy probes while every fault is injected at every point: "
                  "pending list (error, 5xx, 4xx, garbage), request fetch (x3 errors, 5xx, 404, garbage, bad header), backend (unreachable, close before/inside headers, reset mid-body, truncated chunk, malformed status, garbage, bad chunk, 2 MB header), upload (5xx x3, errors x3, 5xx then ok), shim endpoints (garbage, unknown IDs, unreachable). "
                  "PARTIAL: panics inside libraries / fatal runtime errors are exhibited by the run (a worker goroutine that dies takes the test process down), not by the theorem.")
    level_note = ("Trusted: Coq kernel, srcfacts (fatal-site reachability is name-resolved inside the repository's packages, so a fatal call hidden behind an interface or in a dependency is not seen), harness, race detector. "
                  "The branch taken per fault (fault_outcome) is read off the code and compared with the run: 502 for connect/header failures, 200 with aborted body for mid-body failures, no upload for fetch/upload failures, 4xx/5xx for shim input.")
    partial_note = "process-level crashes (library panics, fatal runtime errors, data races) are decided by the run under -race; the theorem covers the repository's own exit paths"
    assumptions = ["workers share no state except the components modelled separately (session cache C10, shim table C12)", "httputil.ReverseProxy answers 502 when the round trip to the backend fails before a response header was read"]

    def harness(self, ctx):
        rc, out, p, dt = C.go_test_overlay(ctx.work, "./agent/", "TestVerifC07$", OVERLAY, "c07.jsonl", ctx.seed, ctx.tier, race=True, timeout=2400)
        rows = C.read_jsonl(p)
        races = servsched.race_reports(out)
        crashed = not any(r.get("kind") == "survived" for r in rows)
        starts = [r for r in rows if r.get("kind") == "fault-start"]
        import re
        m = re.search(r"^(panic: |fatal error: )", out, re.M)
        excerpt = out[max(0, m.start() - 600):m.start() + 2500] if m else out[-4000:]
        return {"rows": [r for r in rows if r.get("kind") == "fault"], "races": races, "crashed": crashed, "rc": rc, "tail": excerpt,
                "in_progress": ({"config": starts[-1].get("config"), "fault": starts[-1].get("fault")} if starts else None)}

    def oracle(self, ctx, obs):
        res = []
        if obs["crashed"]:
            last = obs["rows"][-1]["fault"] if obs["rows"] else None
            import re
            m = re.search(r"(panic: [^\n]*|fatal error: [^\n]*)", obs["tail"])
            cur = obs.get("in_progress") or {}
            res.append(("agent-crashed:%s" % (((cur.get("fault") or last or {}).get("point", "start"))), "the agent process ended while faults were being injected (%s); fault in progress: %s" % (m.group(1) if m else "see output", cur or last),
                        {"driver": "go test -race TestVerifC07", "fault_in_progress": cur, "last_completed_fault": last, "output_excerpt": obs["tail"]}))
        for sig, txt in obs["races"]:
            res.append((sig, "the race detector reported a data race in the agent while faults were injected", {"report": txt}))
        for r in obs["rows"]:
            f = r["fault"]
            rp = {"driver": "TestVerifC07: fault injected among healthy probes (real pollForNewRequests / handler chain / response forwarder)", "config": r["config"], "fault": f, "observed": {k: v for k, v in r.items() if k not in ("kind", "fault", "config")}}
            if f["kind"] == "500-x14" and r.get("loop_ms", 0) > LONG_OUTAGE_MS:
                res.append(("requests-after-outage-served-late:list", "after 14 failed pending-list calls the agent needed %d ms to get to the requests listed next (the capped back-off allows %d ms)" % (r["loop_ms"], LONG_OUTAGE_MS), rp))
            if r.get("error"):
                res.append(("agent-wedged:%s" % f["point"], r["error"], rp))
                continue
            for phase in ("before", "during", "after"):
                ok, n = r["probes_" + phase]
                if ok != n:
                    res.append(("healthy-request-disturbed:%s:%s" % (f["point"], phase), "%d of %d healthy requests issued %s the fault %s/%s were not served correctly" % (n - ok, n, phase, f["point"], f["kind"]), rp))
            if f["point"] == "backend" and f["kind"] == "unreachable" and r["fault_upload_status"] != 502:
                res.append(("unreachable-backend-not-502", "an unreachable backend was answered with %s" % r["fault_upload_status"], rp))
            if f["point"] == "backend" and r["fault_upload_status"] == -1:
                res.append(("backend-fault-no-response:" + f["kind"], "no response at all was uploaded for a request whose backend failed", rp))
        return res

    def model_check(self, ctx, obs):
        # compare the branch taken by the code with the model's fault_outcome
        items, rows = [], []
        for r in obs["rows"]:
            f = r["fault"]
            st = STAGE.get(f["point"]) if f["point"] != "backend" else BACKEND_STAGE.get(f["kind"])
            if st is None or r.get("error") or "then-ok" in f["kind"] or "ws-send-close" in f["kind"] or "ws-idle" in f["kind"]:   # (the open itself succeeds there: the fault is the backend's hang-up afterwards)
                continue
            s = r["fault_upload_status"]
            code = "WDropped" if s == -1 else "(WAnswered %d)" % (s if s >= 0 else 0)
            if f["point"] == "shim":
                code = "(WAnswered 400)" if s in (400, 500) else code
            items.append("match fault_outcome %s, %s with WDropped, WDropped => true | WAnswered a, WAnswered b => Nat.eqb a b | _, _ => false end" % (st, code))
            rows.append(r)
        body = "\n".join(["From Coq Require Import ZArith List Bool Arith.", "From IP Require Import Agent.Isolation Lib.Util.", "Import ListNotations.",
                          "Definition oks : list bool := " + C.llit(items) + ".",
                          "Definition verif_result : list Z := Eval vm_compute in (bad_indices (fun b : bool => b) 0%Z oks)."])
        txt, out, dt = C.eval_cases(ctx.work, "cases_c07", body)
        if txt is None:
            return [("cases_c07.v (model evaluation)", "coqc failed: " + out[-800:], {})], 0, {}
        mism = [("Isolation.fault_outcome", "the outcome of the faulted request differs from the branch the model says the code takes", {"config": rows[i]["config"], "fault": rows[i]["fault"], "fault_upload_status": rows[i]["fault_upload_status"]}) for i in C.parse_z_list(txt)]
        return mism, len(items), {"coqc_s": round(dt, 2), "cases": len(items)}

    def coverage(self, ctx, obs):
        hist = collections.Counter("%s:%s" % (r["fault"]["point"], r["fault"]["kind"]) for r in obs["rows"])
        return {"evaluations": len(obs["rows"]) * 8, "distinct_nontrivial": len({(r["config"], r["fault"]["point"], r["fault"]["kind"]) for r in obs["rows"]}),
                "rule": "case = (handler configuration, injection point, fault kind), enumerated exhaustively; each with 2 healthy probes before, 3 during and 2 after the fault; every case is non-trivial",
                "samples": [obs["rows"][0], obs["rows"][len(obs["rows"]) // 2]] if obs["rows"] else ["(crashed before the first fault completed)"],
                "input_distribution": dict(hist), "exhaustive": True, "race_reports": len(obs["races"])}


PROP = C07()
