"""C13 - the websocket shim only ever connects to the configured backend."""
import base64
import collections
import posixpath

from lib import common as C
from lib.driver import Prop
from props.c02 import coq_str

OVERLAY = {"agent/websockets/zz_verif_common_test.go": "agent_websockets/verif_common_test.go", "agent/websockets/zz_verif_c13_test.go": "agent_websockets/verif_c13_test.go"}
BACKEND = "backend.verif:1234"
PREFIX = "/verifshim/"


def is_clean(p):
    if p == "":
        return False
    c = posixpath.normpath(p)
    if c.startswith("//"):
        c = c[1:]
    if p.endswith("/") and c != "/":
        c += "/"
    return c == p


class C13(Prop):
    pid = "C13"
    props_file = "Props/C13.v"
    model_targets = ["theories/Websockets/TargetCheck.vo"]
    technique = "Coq proof over all URL records for the target rewrite (fields overwritten regenerated from the source) and the dialer's address derivation; refutation theorem for the mux redirect of unclean paths (known finding); handler-level run with a recording network dial function over every URL syntax class and random byte strings"
    level_text = ("C13_only_backend proves for every URL record the parser can produce that the rewritten target dials the configured backend or nothing and contributes only path and query; the set of overwritten fields (Scheme, Host, Opaque) is regenerated from createShimChannel "
                  "(C13_overwritten_fields breaks if one is dropped). C13_mount_clean_paths proves that clean paths outside the prefix reach the wrapped handler; the statement for all paths is refuted (C13_refuted_mux_redirect: net/http's ServeMux redirects unclean paths itself; known finding). "
                  "The real handler is driven with every URL syntax class and random bodies; every address passed to the websocket dialer's NetDialContext is recorded and must be the backend.")
    level_note = ("Trusted: Coq kernel, srcfacts (assigned fields), harness. Modelled, not verified: url.Parse (its result record is an input), url.URL.String and gorilla's host/port derivation (modelled on the record: user info refused, opaque => empty host), http.ServeMux path cleaning (its verdict is an input).")
    partial_note = None
    assumptions = ["url.Parse either fails (400) or yields a record; the model quantifies over all records", "gorilla/websocket dials exactly the host:port of the URL it is given (default port 80 for ws)"]

    def harness(self, ctx):
        rc, out, p, dt = C.go_test_overlay(ctx.work, "./agent/websockets/", "TestVerifC13$", OVERLAY, "c13.jsonl", ctx.seed, ctx.tier, timeout=900)
        rows = C.read_jsonl(p)
        if rc != 0 or not rows:
            raise RuntimeError("C13 harness did not run: rc=%s\n%s" % (rc, out[-2000:]))
        for r in rows:
            if r["kind"] == "open":
                r["dialed"] = r.get("dialed") or []
                r["body_text"] = base64.b64decode(r["body"]).decode("latin-1")
            else:
                r["wrapped_saw"] = r.get("wrapped_saw") or []
        rc, out, p2, dt = C.go_test_overlay(ctx.work, "./agent/websockets/", "TestVerifC13Redirect$", OVERLAY, "c13redir.jsonl", ctx.seed, ctx.tier, timeout=900)
        redir = C.read_jsonl(p2)
        if rc != 0 or not redir:
            raise RuntimeError("C13 redirect harness did not run: rc=%s\n%s" % (rc, out[-2000:]))
        rc, out, p3, dt = C.go_test_overlay(ctx.work, "./agent/websockets/", "TestVerifC13Host$", OVERLAY, "c13host.jsonl", ctx.seed, ctx.tier, timeout=600)
        hostrows = C.read_jsonl(p3)
        if rc != 0 or not hostrows:
            raise RuntimeError("C13 host harness did not run: rc=%s\n%s" % (rc, out[-2000:]))
        return {"open": [r for r in rows if r["kind"] == "open"], "route": [r for r in rows if r["kind"] == "route"], "redirect": redir, "host": hostrows,
                "route_body": [r for r in rows if r["kind"] == "route-body"], "route_stream": [r for r in rows if r["kind"] == "route-stream"]}

    @staticmethod
    def _cls(r):
        p = r.get("parsed")
        if not p:
            return "unparsable"
        if p["opaque"]:
            return "opaque"
        if p["has_user"]:
            return "userinfo"
        if p["host"]:
            return "absolute" if p["scheme"] else "scheme-relative"
        return "path-only" if p["path"] or p["raw_query"] else "empty"

    def oracle(self, ctx, obs):
        res = []
        for r in obs.get("route_stream", []):
            rp = {"driver": "TestVerifC13: GET /events/stream (outside the shim prefix) over real HTTP through websockets.Proxy; the wrapped handler writes two pieces 1.5 s apart and flushes the first", "observed": r}
            if r.get("err") or r.get("status") != 200 or r.get("body") != "data: first\n\ndata: second\n\n":
                res.append(("non-shim-stream-altered", "the streamed response did not arrive as produced (%s)" % (r.get("err") or "status %s body %r" % (r.get("status"), r.get("body"))), rp))
            elif r.get("first_piece_after_ms", 10**9) > r.get("all_after_ms", 0) - 800:
                res.append(("non-shim-stream-buffered", "the first piece of a streamed response reached the client %s ms after the request, the whole response after %s ms: it was held back until the handler returned (the handler could flush: %s)" % (
                    r.get("first_piece_after_ms"), r.get("all_after_ms"), r.get("handler_could_flush")), rp))
        for r in obs.get("route_body", []):
            if r["status"] != 299 or r["wrapped_read"] != r["size"] or r.get("wrapped_err"):
                res.append(("non-shim-request-body-altered", "a POST of %d bytes (%s) to a path outside the shim prefix reached the normal handler as %s bytes (%s), status %s" % (
                    r["size"], "Content-Length" if r["declared_length"] else "no declared length", r["wrapped_read"], r.get("wrapped_err") or "no read error", r["status"]),
                    {"driver": "TestVerifC13: websockets.Proxy with a recording wrapped handler; POST /api/upload", "observed": r}))
        for r in obs.get("host", []):
            rp = {"driver": "TestVerifC13Host: POST <shim>/open (Host: %s) with this body; the backend records the websocket handshake it receives" % r["request_host"], "observed": r}
            want = r["request_host"] if r["rewrite_host"] else r["backend"]
            for hs in r.get("handshakes") or []:
                if hs["host"] != want:
                    res.append(("handshake-host-taken-from-open-body", "the backend's handshake carried Host %r (rewrite-websocket-host=%s: expected %r); the URL in the open body may contribute path and query only" % (hs["host"], r["rewrite_host"], want), rp))
                elif r.get("body_uri") and not r.get("body_opaque") and hs["uri"] != r["body_uri"]:
                    res.append(("handshake-uri-differs-from-open-body", "the backend's handshake asked for %r, the open body says %r" % (hs["uri"], r["body_uri"]), rp))
        for r in obs["open"]:
            bad = [a for a in r["dialed"] if a != BACKEND]
            rp = {"driver": "TestVerifC13: POST <shim>/open with this body; recording NetDialContext", "body": r["body_text"][:200], "parsed": r.get("parsed"), "dialed": r["dialed"], "status": r["status"]}
            if bad:
                res.append(("dialed-foreign-address:" + self._cls(r), "the agent tried to connect to %r (configured backend %s)" % (bad, BACKEND), rp))
            if r["status"] not in (200, 400, 500):
                res.append(("open-unexpected-status", "status %s" % r["status"], rp))
        for r in obs.get("redirect", []):
            bad = [a for a in (r.get("dialed") or []) if a != r["backend"]]
            rp = {"driver": "TestVerifC13Redirect: the backend answers the websocket handshake with this status and Location", "observed": r}
            if bad:
                res.append(("dialed-foreign-address:after-backend-reply-%dxx" % (r["backend_status"] // 100), "after the backend answered the handshake with %s Location %r the agent tried to connect to %r (configured backend %s)" % (
                    r["backend_status"], r["backend_location"], bad, r["backend"]), rp))
            elif r["status"] == 200:
                res.append(("open-succeeded-without-handshake", "the backend answered the handshake with %s but the open request was answered 200" % r["backend_status"], rp))
        for r in obs["route"]:
            p = r["path"]
            if p.startswith(PREFIX) or p + "/" == PREFIX:
                continue
            rp = {"driver": "TestVerifC13: <method> <path> through websockets.Proxy with a recording wrapped handler", "method": r.get("method", "GET"), "path": p, "status": r["status"], "location": r["location"], "wrapped_saw": r["wrapped_saw"]}
            if r["wrapped_saw"] == ["%s %s?q=1" % (r.get("method", "GET"), p)] and r.get("sent_header") is not None and (r.get("wrapped_saw_header") or {}) != r["sent_header"]:
                diff = sorted(k for k in set(r["sent_header"]) | set(r.get("wrapped_saw_header") or {}) if (r.get("wrapped_saw_header") or {}).get(k) != r["sent_header"].get(k))
                res.append(("non-shim-request-header-altered", "%s %s (outside the shim prefix) reached the wrapped handler with other values for %s" % (r.get("method", "GET"), p, diff), dict(rp, sent=r["sent_header"], wrapped_saw_header=r.get("wrapped_saw_header"))))
            if r["wrapped_saw"] != ["%s %s?q=1" % (r.get("method", "GET"), p)]:
                sig = "non-shim-path-not-forwarded:" + ("unclean-path-redirected-by-mux" if r["status"] == 301 and not is_clean(p.replace("%2F", "/")) else "other")
                res.append((sig, "request for %s (outside the shim prefix) did not reach the wrapped handler unchanged: status %s location %r" % (p, r["status"], r["location"]), rp))
        return res

    def model_check(self, ctx, obs):
        items, rows = [], []
        for r in obs["open"]:
            p = r.get("parsed")
            if not p:
                continue
            txt = "".join(p[k] for k in ("scheme", "opaque", "host", "path", "raw_query", "fragment"))
            if len(txt) > 400:
                continue
            u = "{| u_scheme := %s; u_opaque := %s; u_has_user := %s; u_host := %s; u_path := %s; u_force_query := %s; u_raw_query := %s; u_fragment := %s |}" % (
                coq_str(p["scheme"]), coq_str(p["opaque"]), C.blit(p["has_user"]), coq_str(p["host"]), coq_str(p["path"]), C.blit(p["force_query"]), coq_str(p["raw_query"]), coq_str(p["fragment"]))
            d = set(r["dialed"])
            code = 0 if not d else 1 if d == {BACKEND} else 2
            items.append("open_case_ok %s %s %d%%Z" % (coq_str(BACKEND), u, code))
            rows.append(r)
        for r in obs["route"]:
            code = 1 if r["wrapped_saw"] else 2 if r["status"] == 301 else 0
            items.append("route_case_ok %s %s %s %d%%Z" % (coq_str(PREFIX), coq_str(r["path"]), C.blit(is_clean(r["path"].replace("%2F", "/"))), code))
            rows.append(r)
        header = ["From Coq Require Import ZArith String List Bool Ascii.", "From IP Require Import Websockets.Target Websockets.TargetCheck Lib.Util.", "Import ListNotations.", "Open Scope string_scope.", "Open Scope list_scope."]
        bad, dt = C.eval_bool_items(ctx.work, "cases_c13", header, items, shard=2000)
        if bad is None:
            return [("cases_c13.v (model evaluation)", "coqc failed: " + dt[-600:], {})], 0, {}
        mism = [("TargetCheck.open_case_ok/route_case_ok", "the dial / routing observed differs from the model's", {k: v for k, v in rows[i].items() if k != "body"}) for i in bad]
        return mism, len(items), {"coqc_s": round(dt, 2), "cases": len(items)}

    def coverage(self, ctx, obs):
        hist = collections.Counter(self._cls(r) for r in obs["open"])
        st = collections.Counter("status:%s" % r["status"] for r in obs["open"])
        distinct = {r["body"] for r in obs["open"] if r.get("parsed")}
        return {"evaluations": len(obs["open"]) + len(obs["route"]), "distinct_nontrivial": len(distinct),
                "rule": "case = body of the open request (hand-written corpus of every URL syntax class + seeded random byte strings over a URL-ish alphabet); distinct by body; non-trivial when the parser accepts it",
                "samples": [obs["open"][1]["body_text"], obs["open"][7]["body_text"], obs["route"][2]["path"]], "input_distribution": {"url_class": dict(hist), **dict(st)}}


PROP = C13()
