"""C01 - every client gets the response to its own request, never another's."""
import collections

from lib import common as C
from lib import servsched
from lib.driver import Prop

AGENT_OVERLAY = {"agent/zz_verif_common_test.go": "agent/verif_common_test.go",
                 "agent/zz_verif_fakeproxy_test.go": "agent/verif_fakeproxy_test.go",
                 "agent/zz_verif_c01_test.go": "agent/verif_c01_test.go"}


class C01(Prop):
    pid = "C01"
    props_file = "Props/C01.v"
    model_targets = ["theories/Server/ProxyCheck.vo", "theories/Server/RelayCheck.vo", "theories/Agent/SystemCheck.vo"]
    technique = "Coq LTS invariants over all schedules (proxy core + agent workers + arbitrary backend, end-to-end correlation) + trace acceptance of real runs (proxy and agent code under the race detector) by the extracted model + distinct-ID and race checks for the atomic-draw hypothesis"
    level_text = ("C01_proxy_correlation, C01_end_to_end, C01_one_response, C01_at_most_one_client prove, for every number of clients and every interleaving of arrivals, hand-offs, fetches, backend completions, uploads "
                  "(also duplicate uploads, uploads for unknown IDs, cancellations), that with pairwise distinct IDs a client receives exactly backend(its own request, n) for a single invocation n and nobody else receives it. "
                  "The real proxy (newProxy) is driven by barrier-released concurrent clients and an adversarial scripted agent, the real agent code by adversarial listings; every observed trace must be accepted by the model with all monitors true, "
                  "tokens in status line header, body and trailer must match, IDs must be distinct and the race detector silent.")
    level_note = ("Trusted: Coq kernel, srcfacts (channel capacities), harness, race detector. Hypothesis made explicit and checked on the implementation rather than proved: IDs are pairwise distinct (SHA-256 of a 63-bit PRNG draw) "
                  "and the draw is atomic. Modelled, not verified: net/http serving/parsing, io.Pipe, httputil.ReverseProxy. Partial: unsynchronised access inside one labelled step is exhibited by the race detector, not by a theorem.")
    partial_note = "atomicity of the ID draw and freedom from data races inside a labelled step are decided by the race detector on the real code; the theorems assume them as the explicit hypothesis inj_upto"
    assumptions = [
        "request IDs are pairwise distinct (checked on every run: ids_distinct on every accepted trace) - probabilistic for SHA-256 of math/rand output",
        "one model label per channel operation / map access of the proxy; Go's unbuffered channel is a rendezvous",
        "the backend is an arbitrary function of (request token, invocation nonce); the harness backend echoes the token",
    ]

    def harness(self, ctx):
        sv = servsched.run(ctx, race=True)
        rc, out, p, dt = C.go_test_overlay(ctx.work, "./agent/", "TestVerifC01Agent", AGENT_OVERLAY, "agent.jsonl", ctx.seed, ctx.tier, race=True, timeout=1500)
        rounds = [r for r in C.read_jsonl(p) if r.get("kind") == "round"]
        races = servsched.race_reports(out)
        if not rounds or (rc != 0 and not races):
            raise RuntimeError("C01 agent harness did not run: rc=%s\n%s" % (rc, out[-2500:]))
        for r in rounds:
            r["uploads"] = r.get("uploads") or []
            r["invocations"] = r.get("invocations") or []
            r["lists"] = [l or [] for l in r["lists"]]
        return {"server": sv, "rounds": rounds, "agent_races": races}

    def oracle(self, ctx, obs):
        res = []
        for sig, txt in obs["server"]["races"] + obs["agent_races"]:
            res.append((sig, "the race detector reported a data race in repository code", {"report": txt}))
        res += servsched.oracle_crash(obs["server"])
        res += servsched.oracle_ids(obs["server"])
        for s in obs["server"]["schedules"]:
            res += servsched.oracle_correlation(s)
        for r in obs["rounds"]:
            base = {"driver": "TestVerifC01Agent (pollForNewRequests with adversarial listings, token-echo backend)", "round": r["index"], "requests": r["requests"]}
            up_ids = collections.Counter(u["id"] for u in r["uploads"])
            nonces = collections.Counter()
            for u in r["uploads"]:
                want = r["id_tok"].get(u["id"])
                hdr = (u.get("header") or {}).get("X-Verif-Resp") or [""]
                tok, nonce = servsched.parse_resp(hdr[0])
                rp = dict(base, upload=u, expected_token=want)
                if u.get("parse_err") or u["status"] != 200 or tok is None:
                    res.append(("agent:bad-upload", "upload under %s is not the backend's response (%s)" % (u["id"], u.get("parse_err") or u["status"]), rp))
                    continue
                if tok != want:
                    res.append(("agent:crossed-upload", "response for token %s was uploaded under the ID of token %s" % (tok, want), rp))
                tr = ((u.get("trailer") or {}).get("X-Verif-Trailer") or [""])[0]
                if not u["body_ok"] or u["body_tok"] != hdr[0] or tr != hdr[0]:
                    res.append(("agent:mixed-upload-parts", "upload under %s mixes parts of several responses" % u["id"], rp))
                nonces[nonce] += 1
            for n, k in nonces.items():
                if k > 1:
                    res.append(("agent:response-uploaded-twice", "backend invocation %d was uploaded %d times" % (n, k), base))
            for i, k in up_ids.items():
                if k > 1:
                    res.append(("agent:two-uploads-for-one-id", "%d uploads under ID %s" % (k, i), base))
            for i in r["id_tok"]:
                if i not in up_ids and i not in (r.get("upload_faults") or {}):
                    res.append(("agent:no-upload", "no response was uploaded for %s" % i, dict(base, id=i)))
            for v in r["invocations"]:
                ht = (v.get("header") or {}).get("X-Verif-Token") or [""]
                if ht[0] != v["tok"] or not v["body_ok"] or (v["body_len"] and v["body_tok"] != v["tok"]):
                    res.append(("agent:mixed-request-parts", "backend invocation for %s saw header/body of another request" % v["tok"], dict(base, invocation=v)))
        return res

    def search(self, ctx, obs, broken):
        """A broken relay obligation or correspondence: the exchanges of this very run on which the relay model, instantiated with
        what the source does now, passes through a racing state are the failing histories."""
        res = []
        for b in broken:
            if b.get("kind") == "correspondence" and b.get("name") == "RelayCheck.relay_obs" and "both goroutines" in str(b.get("detail")):
                c = b.get("case") or {}
                res.append(("relay:trailer-map-raced-after-client-hung-up", "a client hung up in the middle of its response and the rest of the upload (last chunk, trailers) arrived afterwards: "
                            "the client's handler goes on to read resp.Trailer while the upload handler's last Read stores into it (concurrent map access: the runtime ends the proxy with every request in flight); " + str(b.get("detail")),
                            {"driver": "TestVerifServerSchedules; the observed exchange replayed on Server/Relay.v with the guard read off the source (RelayCheck.relay_guarded)", "exchange": c}))
                break
        return res

    def model_check(self, ctx, obs):
        m1, n1, info1 = servsched.model_check(ctx, obs["server"]["schedules"], "cases_c01_server")
        m1r, n1r, info1r = servsched.relay_check(ctx, obs["server"]["schedules"], "cases_c01_relay")
        m1, n1 = m1 + m1r, n1 + n1r
        info1 = dict(info1, **info1r)
        items, rounds = [], obs["rounds"]
        for r in rounds:
            idn, order = {}, []
            for l in r["lists"]:
                for i in l:
                    if i not in idn:
                        idn[i] = 100 + len(idn)
                        order.append(i)
            tokn = {}
            for k, i in enumerate(order):
                tokn[r["id_tok"][i]] = k + 1        # client number = token number
            labels = []
            for k, i in enumerate(order):
                labels.append("SArrive %d %d" % (k + 1, k + 1))
                labels.append("SHand 1 %d %d" % (idn[i], k + 1))
            by_nonce = {}
            for u in r["uploads"]:
                hdr = ((u.get("header") or {}).get("X-Verif-Resp") or [""])[0]
                tok, nonce = servsched.parse_resp(hdr)
                if tok is not None and u["id"] in idn:
                    by_nonce[nonce] = (u["id"], tok)
            inv_tok = {v["nonce"]: v["tok"] for v in r["invocations"]}
            base_nonce = min(inv_tok) if inv_tok else 1
            # model nonces count from 0 within the round: renumber the round's invocations in order
            ordered = sorted(inv_tok)
            renum = {n: k for k, n in enumerate(ordered)}
            for n in ordered:
                if n not in by_nonce:
                    continue
                i, _ = by_nonce[n]
                q = tokn.get(inv_tok[n], -1)
                labels += ["WSpawn %d" % idn[i], "WFetch %d (Some %s)" % (idn[i], C.zlit(q))]
            # invocations must be replayed in nonce order so that the model's nonce counter agrees
            for n in ordered:
                if n in by_nonce:
                    labels.append("WBackend %d" % idn[by_nonce[n][0]])
            observed = []
            skipped = [n for n in ordered if n not in by_nonce]
            for u in sorted(r["uploads"], key=lambda u: u["seq"]):
                hdr = ((u.get("header") or {}).get("X-Verif-Resp") or [""])[0]
                tok, nonce = servsched.parse_resp(hdr)
                if tok is None or u["id"] not in idn or nonce not in renum:
                    continue
                labels.append("WUpload %d true" % idn[u["id"]])
                k = renum[nonce] - sum(1 for s in skipped if s < nonce)
                observed.append("(%d, %d, %d)" % (idn[u["id"]], tokn.get(tok, 0) * 100000 + k + 1, order.index(u["id"]) + 1))
            items.append("check_round %s %s %s" % (C.llit(str(idn[i]) for i in order), C.llit(labels), C.llit(observed)))
        body = "\n".join(["From Coq Require Import ZArith List Bool.", "From IP Require Import Server.ProxyCore Server.ProxyCheck Agent.System Agent.SystemCheck.", "Import ListNotations.", "Open Scope Z_scope.",
                          "Definition codes : list Z := " + C.llit(items) + ".",
                          "Definition verif_result : list Z := Eval vm_compute in (map (fun p => fst p * 10 + snd p) (nonzero_indices 0 codes))."])
        txt, out, dt = C.eval_cases(ctx.work, "cases_c01_agent", body)
        if txt is None:
            return m1 + [("cases_c01_agent.v (model evaluation)", "coqc failed: " + out[-600:], {})], n1, info1
        m2 = []
        for v in C.parse_z_list(txt):
            idx, code = v // 10, v % 10
            r = rounds[idx]
            m2.append(("SystemCheck.check_round", "agent round %d: %s" % (r["index"], {1: "the composed model cannot take the observed trace (a worker fetched/uploaded something else than the request bound to its ID)", 2: "the uploads observed are not the model's deliveries"}.get(code)),
                       {"round": r["index"], "lists": r["lists"][:10], "uploads": r["uploads"][:10]}))
        return m1 + m2, n1 + len(rounds), {"server": info1, "agent_rounds": len(rounds), "agent_coqc_s": round(dt, 2)}

    def coverage(self, ctx, obs):
        sc = servsched.coverage(obs["server"])
        rounds = obs["rounds"]
        sizes = collections.Counter()
        for r in rounds:
            for u in r["uploads"]:
                b = u["body_len"]
                sizes["resp<=4096" if b <= 4096 else "resp<=65537" if b <= 65537 else "resp>64K"] += 1
        sc["evaluations"] += sum(r["requests"] for r in rounds)
        sc["distinct_nontrivial"] += len({C.case_hash(r["lists"]) for r in rounds if r["requests"] >= 2})
        sc["rule"] += "; agent: case = round of N requests listed in adversarial order/grouping with mixed body sizes and backend latencies, distinct by hash of the listing, non-trivial with at least 2 requests"
        sc["input_distribution"]["agent_rounds"] = len(rounds)
        sc["input_distribution"]["agent_requests"] = sum(r["requests"] for r in rounds)
        sc["input_distribution"]["agent_upload_sizes"] = dict(sizes)
        sc["samples"].append({"agent_round": rounds[0]["index"], "requests": rounds[0]["requests"], "lists": rounds[0]["lists"][:3], "first_upload": rounds[0]["uploads"][:1]})
        return sc


PROP = C01()
