"""C05 - responses stream through the agent chunk by chunk."""
import collections

from lib import common as C
from lib.driver import Prop

OVERLAY = {"agent/zz_verif_common_test.go": "agent/verif_common_test.go",
           "agent/zz_verif_fakeproxy_test.go": "agent/verif_fakeproxy_test.go",
           "agent/zz_verif_c05_test.go": "agent/verif_c05_test.go"}
BOUND_MS = 2000


class C05(Prop):
    pid = "C05"
    props_file = "Props/C05.v"
    model_targets = ["theories/Agent/StreamPipe.vo"]
    technique = "Coq proof over all stage counts, chunk sequences and interleavings that a pipeline of rendezvous stages retains nothing when quiescent and preserves order (sharpness: a hoarding stage wedges a lock-step producer) + regenerated facts (forced chunked upload, flush interval) + lock-step run of the real handler chain and response forwarder over real HTTP with a stated time bound"
    level_text = ("C05_no_retention proves for every number of stages, every chunk sequence and every interleaving that whenever nothing can move any more no stage holds anything and the proxy has observed every chunk written so far, in order (C05_order), and C05_bounded_moves that any run of internal hand-overs is at most (chunks held) x (stages) long; so a backend that continues only after the proxy "
                  "observed the previous chunk always gets to continue. C05_sharp_hoarding_stage shows that one buffering stage breaks this. The source facts that make the upload incremental (TransferEncoding forced to chunked, FlushInterval <= 100 ms) are regenerated and proved. "
                  "PARTIAL: 'within bounded time' is decided by the run: a lock-step backend behind the real handler chain (plain, shim-script injection, banner) and NewResponseForwarder uploads over real HTTP; every chunk (1 byte .. 1 MB, up to 120 chunks, pauses 0-150 ms) must be observed by the proxy within 2 s of its flush.")
    level_note = ("Trusted: Coq kernel, srcfacts, harness, wall clock. Modelled, not verified: io.Pipe rendezvous, net/http's chunked writer and flushing, httputil.ReverseProxy's flush loop, http.Transport streaming the request body. "
                  "Streams longer than --proxy-timeout (http.Client.Timeout covers the whole upload) are outside the explored space.")
    partial_note = "time bounds and net/http's flushing are runtime behaviour: observed with a 2 s bound per chunk, not proved"
    assumptions = ["every stage of the path hands a chunk on as soon as its successor can take it (io.Pipe semantics); bufferedReadSeeker returns what it read", "the fake proxy endpoint reads the upload body incrementally"]

    def harness(self, ctx):
        rc, out, p, dt = C.go_test_overlay(ctx.work, "./agent/", "TestVerifC05$", OVERLAY, "c05.jsonl", ctx.seed, ctx.tier, timeout=2400)
        rows = [r for r in C.read_jsonl(p) if r.get("kind") == "stream"]
        if rc != 0 or not rows:
            raise RuntimeError("C05 harness did not run: rc=%s\n%s" % (rc, out[-2000:]))
        for r in rows:
            r["obs"]["delivered"] = r["obs"].get("delivered") or []
            r["obs"]["latency_ms"] = r["obs"].get("latency_ms") or []
        return {"rows": rows}

    def oracle(self, ctx, obs):
        res = []
        for r in obs["rows"]:
            c, o = r["case"], r["obs"]
            rp = {"driver": "TestVerifC05: lock-step backend -> real handler chain (%s) -> NewResponseForwarder -> HTTP upload read incrementally" % c["config"], "case": dict(c, chunks=c["chunks"][:20]), "delivered": o["delivered"][:20], "latency_ms": o["latency_ms"][:20]}
            for i, ok in enumerate(o["delivered"]):
                if not ok:
                    res.append(("chunk-not-relayed:%s:%s" % (c["config"], "first-chunk" if i == 0 else "later-chunk"), "chunk %d (%d bytes) was not relayed while the backend waited (the response only moves on when more is produced)" % (i, c["chunks"][i]), rp))
                    break
                if o["latency_ms"][i] > BOUND_MS:
                    res.append(("chunk-relayed-late:" + c["config"], "chunk %d took %d ms to reach the proxy" % (i, o["latency_ms"][i]), rp))
                    break
            else:
                if len(o["delivered"]) < len(c["chunks"]):
                    res.append(("stream-incomplete:" + c["config"], "only %d of %d chunks were produced/observed" % (len(o["delivered"]), len(c["chunks"])), rp))
                elif len(o["delivered"]) > len(c["chunks"]):
                    res.append(("stream-restarted:" + c["config"], "the backend was made to produce %d chunks for a response of %d: the response was aborted on the way and the request sent again" % (len(o["delivered"]), len(c["chunks"])), rp))
                elif c["config"] in ("plain", "h2c") and o.get("total_observed") != sum(c["chunks"]):
                    res.append(("stream-total-differs:" + c["config"], "the proxy received %s body bytes in the completed upload, the backend wrote %d" % (o.get("total_observed"), sum(c["chunks"])), dict(rp, total_observed=o.get("total_observed"))))
        return res

    def model_check(self, ctx, obs):
        rows = obs["rows"]
        items = ["lockstep_ok 5 %s" % C.llit(str(i + 1) for i in range(min(len(r["case"]["chunks"]), 40))) for r in rows]
        body = "\n".join(["From Coq Require Import ZArith List Bool Arith.", "From IP Require Import Agent.StreamPipe Lib.Util.", "Import ListNotations.",
                          "Definition oks : list bool := " + C.llit(items) + ".",
                          "Definition verif_result : list Z := Eval vm_compute in (bad_indices (fun b : bool => b) 0%Z oks)."])
        txt, out, dt = C.eval_cases(ctx.work, "cases_c05", body)
        if txt is None:
            return [("cases_c05.v (model evaluation)", "coqc failed: " + out[-800:], {})], 0, {}
        bad = C.parse_z_list(txt)
        mism = [("StreamPipe.lockstep_ok", "the model cannot carry this lock-step run to completion", rows[i]["case"]) for i in bad]
        # the implementation side of the comparison: the run completed chunk by chunk (checked by the oracle)
        return mism, len(items), {"coqc_s": round(dt, 2), "streams": len(items)}

    def coverage(self, ctx, obs):
        rows = obs["rows"]
        hist = collections.Counter()
        lat = []
        for r in rows:
            c = r["case"]
            hist["config:" + c["config"]] += 1
            hist["chunks:%s" % ("1-3" if len(c["chunks"]) <= 3 else "<=40" if len(c["chunks"]) <= 40 else ">40")] += 1
            for s in c["chunks"]:
                hist["size:%s" % ("1-2" if s <= 2 else "<=4097" if s <= 4097 else "<=70000" if s <= 70000 else "1MB")] += 1
            lat += r["obs"]["latency_ms"]
        return {"evaluations": sum(len(r["case"]["chunks"]) for r in rows), "distinct_nontrivial": len({C.case_hash(r["case"]) for r in rows if len(r["case"]["chunks"]) >= 2}),
                "rule": "case = one streamed response (chunk sizes, pause, content type, handler configuration); distinct by hash; non-trivial with at least two chunks (the second one is only written after the first was observed)",
                "samples": [dict(rows[0]["case"], chunks=rows[0]["case"]["chunks"][:8])], "input_distribution": dict(hist), "max_latency_ms": max(lat or [0]), "bound_ms": BOUND_MS}


PROP = C05()
