"""C09 - identity and credential headers reaching the backend are trustworthy."""
import collections

from lib import common as C
from lib.driver import Prop

OVERLAY = {"agent/zz_verif_common_test.go": "agent/verif_common_test.go",
           "agent/zz_verif_fakeproxy_test.go": "agent/verif_fakeproxy_test.go",
           "agent/zz_verif_c09_test.go": "agent/verif_c09_test.go"}


def hexs(s):
    """Coq string literal through explicit bytes for non-ASCII."""
    out = ""
    for b in s.encode("utf-8"):
        out = out  # placeholder
    return s


def coq_str(s):
    # non-ASCII bytes are written as 3-digit decimal escapes inside a Coq string: build with String/ascii_of_nat when needed
    b = s.encode("utf-8")
    if all(32 <= x < 127 for x in b):
        return C.slit(s)
    parts = "".join('(String (Ascii.ascii_of_nat %d) ' % x for x in b)
    return parts + "EmptyString" + ")" * len(b)


class C09(Prop):
    pid = "C09"
    props_file = "Props/C09.v"
    model_targets = ["theories/Agent/ForwardCheck.vo"]
    technique = "Coq proof over all client header lists for the header edits regenerated from the source (which http.Header method is applied) + differential run of the real agent code in all 16 flag combinations, HTTP and websocket-shim requests, against the model"
    level_text = ("C09_user_id, C09_credentials, C09_websocket_dial, C09_other_headers_untouched prove for every client-supplied header list (forged, repeated, any casing), every asserted identity and both flags that the handler chain and the websocket dial "
                  "see exactly [asserted identity] and no Authorization value, and that nothing else changes. The Header methods used by forwardRequest and the shim's strip table are regenerated from the source (C09_methods breaks if Set becomes Add). "
                  "The real agent code is run in all 16 combinations of forward-user-id / strip-credentials / shim / sessions with generated header sets; the backend's view must equal the model's.")
    level_note = ("Trusted: Coq kernel, srcfacts (method names at the call site, stripHeaderNames), harness. Modelled, not verified: http.Header (Lib/Header.v), header canonicalisation by http.ReadRequest, "
                  "httputil.ReverseProxy and gorilla/websocket passing these two fields through unchanged (checked by the differential run).")
    assumptions = [
        "http.ReadRequest canonicalises field names (Lib/Header.v canon); Header.Set/Add/Del have map semantics",
        "ReverseProxy, the session handler and the websocket dialer do not alter X-Inverting-Proxy-User-Id / Authorization (checked on every run, not proved)",
    ]

    def harness(self, ctx):
        rc, out, p, dt = C.go_test_overlay(ctx.work, "./agent/", "TestVerifC09", OVERLAY, "c09.jsonl", ctx.seed, ctx.tier, timeout=900)
        rows = [r for r in C.read_jsonl(p) if r.get("kind") == "c09"]
        if rc != 0 or not rows:
            raise RuntimeError("C09 harness did not run: rc=%s\n%s" % (rc, out[-2000:]))
        for r in rows:
            for k in ("uid", "auth", "other", "fields"):
                r[k] = r.get(k) or []
        return {"rows": rows}

    def oracle(self, ctx, obs):
        res = []
        for r in obs["rows"]:
            forged = [v for (n, v) in r["fields"] if n.lower() == "x-inverting-proxy-user-id"]
            rp = {"driver": "TestVerifC09 (real forwardRequest + handler chain; backend records headers)", "config": {k: r[k] for k in ("fwd", "strip", "shim", "sessions", "websocket")},
                  "asserted_user": r["user"], "client_fields": r["fields"], "backend_saw": {"X-Inverting-Proxy-User-ID": r["uid"], "Authorization": r["auth"]}}
            kind = "websocket" if r["websocket"] else "http"
            if not r["reached_backend"] and r.get("userinfo"):
                continue  # a target URL with userinfo is refused by the websocket dialer: nothing is forwarded
            if not r["reached_backend"]:
                res.append(("request-did-not-reach-backend:" + kind, "the request never reached the backend", rp))
                continue
            if r["fwd"] and r["uid"] != [r["user"]]:
                sig = "forged-user-id-forwarded" if forged else "user-id-wrong"
                res.append(("%s:%s" % (sig, kind), "backend received user ID values %r, asserted identity is %r" % (r["uid"], r["user"]), rp))
            if r["strip"] and r["auth"]:
                res.append(("authorization-forwarded:" + kind, "backend received Authorization %r although credential stripping is on" % (r["auth"],), rp))
        return res

    def model_check(self, ctx, obs):
        rows = [r for r in obs["rows"] if r["reached_backend"]]
        items = []
        for r in rows:
            fields = C.llit("(%s, %s)" % (coq_str(n), coq_str(v)) for n, v in r["fields"])
            items.append("c09_ok %s %s %s %s %s %s %s %s" % (C.blit(r["fwd"]), C.blit(r["strip"]), C.blit(r["websocket"]), coq_str(r["user"]), fields,
                                                        C.llit(coq_str(v) for v in r["uid"]), C.llit(coq_str(v) for v in r["auth"]), C.llit(coq_str(v) for v in r["other"])))
        body = "\n".join(["From Coq Require Import ZArith String List Bool Ascii.", "From IP Require Import Agent.ForwardCheck Lib.Util.", "Import ListNotations.", "Open Scope string_scope.", "Open Scope list_scope.",
                          "Definition oks : list bool := " + C.llit(items) + ".",
                          "Definition verif_result : list Z := Eval vm_compute in (bad_indices (fun b : bool => b) 0%Z oks)."])
        txt, out, dt = C.eval_cases(ctx.work, "cases_c09", body)
        if txt is None:
            return [("cases_c09.v (model evaluation)", "coqc failed: " + out[-600:], {})], 0, {}
        mism = []
        for i in C.parse_z_list(txt):
            r = rows[i]
            mism.append(("ForwardCheck.c09_ok", "the identity/credential headers seen by the backend differ from the model's", {k: r[k] for k in ("fwd", "strip", "websocket", "user", "fields", "uid", "auth", "other")}))
        return mism, len(rows), {"coqc_s": round(dt, 2), "cases": len(rows)}

    def coverage(self, ctx, obs):
        rows = obs["rows"]
        hist = collections.Counter()
        for r in rows:
            hist["cfg fwd=%d strip=%d shim=%d sess=%d" % (r["fwd"], r["strip"], r["shim"], r["sessions"])] += 1
            hist["websocket" if r["websocket"] else "http"] += 1
            nf = sum(1 for n, v in r["fields"] if n.lower() == "x-inverting-proxy-user-id")
            hist["forged_id_headers=%s" % (nf if nf < 3 else "3+")] += 1
            hist["authorization_headers=%d" % sum(1 for n, v in r["fields"] if n.lower() == "authorization")] += 1
        distinct = {C.case_hash([r["fwd"], r["strip"], r["websocket"], r["user"], r["fields"]]) for r in rows
                    if any(n.lower() in ("x-inverting-proxy-user-id", "authorization") for n, v in r["fields"])}
        return {"evaluations": len(rows), "distinct_nontrivial": len(distinct),
                "rule": "case = (flags, asserted identity, client header list); distinct by hash; non-trivial when the client supplies an identity or Authorization header",
                "samples": [{k: r[k] for k in ("fwd", "strip", "websocket", "user", "fields", "uid", "auth")} for r in rows[:3]],
                "input_distribution": dict(hist)}


PROP = C09()
