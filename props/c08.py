"""C08 - polling backs off with bounded, strictly positive delays."""
import collections

from lib import common as C
from lib.driver import Prop

MS = 1000000
CAP = 3000000000
SLACK = 40 * MS  # scheduling slack allowed above the upper end of a sleep (minimum over 3 repetitions)


def spec_base(n):
    return min((1 << n) * MS, CAP) if n < 40 else CAP


class C08(Prop):
    pid = "C08"
    props_file = "Props/C08.v"
    model_targets = ["theories/Agent/BackoffCheck.vo"]
    technique = "Coq proof over Z with explicit int64 wrap (all retry counts in [0,2^64), all PRNG draws) + regenerated constants + differential run of ExponentialBackoffDuration and pollForNewRequests against the model envelope"
    level_text = ("Theorems C08_schedule, C08_doubles_then_caps, C08_positive_bounded, C08_loop, C08_no_busy_loop (Props/C08.v) prove for every retry count of the uint range, "
                  "every jitter draw and every outcome pattern that the modelled delay is strictly positive, equals min(2^n ms, 3 s) within +-10%, and that the loop's counter "
                  "is the number of consecutive failures, and that any run sleeps once per failed list call and at least 0.9 ms (less 1 ns) per failed call in total. The constants are regenerated from the source on every run; the real functions are run on ~2000 retry counts and on scripted "
                  "failure patterns and must fall inside the model's envelope.")
    level_note = ("Trusted: Coq kernel; srcfacts constant evaluation; float rounding within 1 ns of exact arithmetic; rand.Float64 in [0,1); time.Sleep lower bound; "
                  "40 ms scheduling slack on observed sleeps. Modelled, not verified: math.Log2, math/rand, time.Sleep.")
    assumptions = [
        "IEEE-754 double arithmetic of addJitter is modelled by exact rational arithmetic with a +-1 ns envelope (Agent/Backoff.v lo/hi)",
        "math/rand.Float64 is modelled as k/2^53 for an arbitrary k in [0,2^53); its distribution is a declared don't-care",
        "time.Sleep sleeps at least the requested duration; the upper bound on observed gaps is taken as the minimum over 3 concurrent repetitions and carries 40 ms of scheduling slack",
        "uint(math.Log2(float64(maxBackoff/firstWait))) is modelled as Z.log2 of the integer quotient",
    ]

    OVERLAY_UTILS = {"agent/utils/zz_verif_common_test.go": "agent_utils/verif_common_test.go",
                     "agent/utils/zz_verif_c08_test.go": "agent_utils/verif_c08_test.go"}
    OVERLAY_AGENT = {"agent/zz_verif_common_test.go": "agent/verif_common_test.go",
                     "agent/zz_verif_c08_test.go": "agent/verif_c08_test.go"}

    def harness(self, ctx):
        rc1, out1, p1, dt1 = C.go_test_overlay(ctx.work, "./agent/utils/", "TestVerifC08Direct", self.OVERLAY_UTILS, "direct.jsonl", ctx.seed, ctx.tier)
        rc2, out2, p2, dt2 = C.go_test_overlay(ctx.work, "./agent/", "TestVerifC08Loop", self.OVERLAY_AGENT, "loop.jsonl", ctx.seed, ctx.tier)
        obs = {"direct": C.read_jsonl(p1), "loop": C.read_jsonl(p2), "rc": [rc1, rc2], "out": [out1[-2000:], out2[-2000:]]}
        if rc1 != 0 or rc2 != 0 or not obs["direct"] or not obs["loop"]:
            raise RuntimeError("C08 harness did not run: rc=%s/%s\n%s\n%s" % (rc1, rc2, out1[-1500:], out2[-1500:]))
        return obs

    def oracle(self, ctx, obs):
        res = []
        for r in obs["direct"]:
            n, mn, mx = int(r["n"]), r["min"], r["max"]
            b = spec_base(n)
            cls = "0-11" if n <= 11 else "12-63" if n < 64 else "64+"
            if mn <= 0:
                res.append(("direct:nonpositive:n=" + cls, "ExponentialBackoffDuration(%d) returned %d ns (not strictly positive)" % (n, mn),
                            {"call": "utils.ExponentialBackoffDuration", "n": str(n), "observed_min": mn, "observed_max": mx, "expected_base_ns": b}))
            elif 10 * mn + 10 < 9 * b:
                res.append(("direct:below-band:n=" + cls, "ExponentialBackoffDuration(%d) returned %d ns, below 0.9 x %d" % (n, mn, b),
                            {"call": "utils.ExponentialBackoffDuration", "n": str(n), "observed_min": mn, "observed_max": mx, "expected_base_ns": b}))
            elif 10 * mx > 11 * b + 10:
                res.append(("direct:above-band:n=" + cls, "ExponentialBackoffDuration(%d) returned %d ns, above 1.1 x %d" % (n, mx, b),
                            {"call": "utils.ExponentialBackoffDuration", "n": str(n), "observed_min": mn, "observed_max": mx, "expected_base_ns": b}))
        for r in obs["loop"]:
            if r.get("error"):
                res.append(("loop:hang", "poll loop: " + r["error"], {"pattern": r["pattern"]}))
                continue
            cnt = 0
            for i, g in enumerate(r["gaps"]):
                k = r["pattern"][i]
                rp = {"driver": "pollForNewRequests with scripted list outcomes (0 ok,1 transport error,2 500,3 bad JSON,4 404,5/6/7 500/503/401 with empty body,8 ok with empty body)",
                      "pattern": r["pattern"], "gaps_ns": r["gaps"], "index": i}
                if k in (0, 8):
                    cnt = 0
                    if g > SLACK:
                        res.append(("loop:sleep-after-success", "poll loop waited %d ns after a successful list call" % g, rp))
                else:
                    b = spec_base(cnt)
                    if 10 * g + 10 < 9 * b:
                        res.append(("loop:sleep-too-short", "after %d consecutive failures the loop slept %d ns < 0.9 x %d" % (cnt + 1, g, b), rp))
                    elif 10 * g > 11 * b + 10 * SLACK:
                        res.append(("loop:sleep-too-long", "after %d consecutive failures the loop slept %d ns > 1.1 x %d (+slack): counter not reset or cap lost" % (cnt + 1, g, b), rp))
                    cnt += 1
        return res

    def model_check(self, ctx, obs):
        direct = [(int(r["n"]), r["min"], r["max"]) for r in obs["direct"]]
        loops = [r for r in obs["loop"] if not r.get("error")]
        # sharded: one huge list literal overflows coqc's stack in the thorough tier
        bad, dt = [], 0.0
        DS, LS = 4000, 400
        shards = [("d", k, direct[k:k + DS]) for k in range(0, len(direct), DS)] + [("l", k, loops[k:k + LS]) for k in range(0, len(loops), LS)]
        for kind, k0, part in shards:
            body = ["From Coq Require Import ZArith List Bool.", "From IP Require Import Agent.BackoffCheck.", "Import ListNotations.", "Open Scope Z_scope."]
            if kind == "d":
                body += ["Definition direct_cases : list (Z*Z*Z) := " + C.llit("(%s,%s,%s)" % (C.zlit(a), C.zlit(b), C.zlit(c)) for a, b, c in part) + ".",
                         "Definition verif_result : list Z := Eval vm_compute in (bad_indices direct_ok 0 direct_cases)."]
            else:
                body += ["Definition loop_cases : list (list bool * list Z) := " + C.llit(
                    "(%s,%s)" % (C.llit(C.blit(k in (0, 8)) for k in r["pattern"]), C.llit(C.zlit(g) for g in r["gaps"])) for r in part) + ".",
                    "Definition verif_result : list Z := Eval vm_compute in (bad_indices (loop_ok %d) 0 loop_cases)." % SLACK]
            txt, out, d1 = C.eval_cases(ctx.work, "cases_c08_%s%d" % (kind, k0), "\n".join(body))
            dt += d1
            if txt is None:
                return [("cases_c08.v (model evaluation)", "coqc failed: " + out[-600:], {})], 0, {"coqc_s": dt}
            bad += [(1000000 if kind == "l" else 0) + k0 + v for v in C.parse_z_list(txt)]
        mism = []
        for i in bad:
            if i >= 1000000:
                r = loops[i - 1000000]
                mism.append(("BackoffCheck.loop_ok", "observed sleeps of the poll loop are outside the model's envelope", {"pattern": r["pattern"], "gaps_ns": r["gaps"]}))
            else:
                n, mn, mx = direct[i]
                mism.append(("BackoffCheck.direct_ok", "ExponentialBackoffDuration(%d) in [%d,%d] is outside the model's [lo,hi]" % (n, mn, mx), {"n": str(n), "min": mn, "max": mx}))
        return mism, len(direct) + len(loops), {"coqc_s": round(dt, 2), "cases": len(direct) + len(loops)}

    def coverage(self, ctx, obs):
        hist = collections.Counter()
        for r in obs["direct"]:
            n = int(r["n"])
            hist["n<=11" if n <= 11 else "12<=n<=63" if n < 64 else "64<=n<2^32" if n < 2 ** 32 else "n>=2^32"] += 1
        kinds = collections.Counter(k for r in obs["loop"] for k in r["pattern"])
        distinct_n = len({r["n"] for r in obs["direct"]})
        nontrivial_loops = len({tuple(r["pattern"]) for r in obs["loop"] if any(r["pattern"]) and len(r["pattern"]) >= 2})
        return {
            "evaluations": sum(r["draws"] for r in obs["direct"]) + sum(r.get("calls", 0) for r in obs["loop"]),
            "distinct_nontrivial": distinct_n + nontrivial_loops,
            "rule": "direct: one case per distinct retry count n (boundary set 0..70, 2^k-1/2^k/2^k+1, 2^64-1, plus seeded random n over all magnitudes), each drawn `draws` times; loop: one case per distinct outcome pattern with at least one failure and two calls",
            "samples": [obs["direct"][0], obs["direct"][12], obs["direct"][-1], obs["loop"][0]],
            "input_distribution": {"retry_count_classes": dict(hist), "list_outcome_kinds(0=ok,1=transport,2=500,3=badjson,4=404,5/6/7=500/503/401 empty body,8=ok empty body)": {str(k): v for k, v in kinds.items()},
                                   "loop_patterns": len(obs["loop"]), "max_pattern_len": max(len(r["pattern"]) for r in obs["loop"])},
        }


PROP = C08()
