"""C11 - shimmed websockets deliver every message once, in order, unchanged."""
import collections
import json

from lib import common as C
from lib.driver import Prop
from props.c02 import coq_str

OVERLAY = {"agent/websockets/zz_verif_common_test.go": "agent_websockets/verif_common_test.go",
           "agent/websockets/zz_verif_shim_test.go": "agent_websockets/verif_shim_test.go",
           "agent/websockets/zz_verif_c11_test.go": "agent_websockets/verif_c11_test.go",
           "agent/websockets/zz_verif_c12_test.go": "agent_websockets/verif_c12_test.go"}


def to_coq_json(v, atoms):
    if isinstance(v, dict):
        return "(JO %s)" % C.llit("(%s, %s)" % (coq_str(k), to_coq_json(x, atoms)) for k, x in v.items())
    if isinstance(v, str):
        return "(JS %s)" % coq_str(v)
    key = json.dumps(v, sort_keys=True)
    return "(JAtom %d)" % atoms.setdefault(key, len(atoms))


def parse_exact(text):
    # numbers are kept as their literal text so that a change of value is visible
    return json.loads(text, parse_int=lambda s: {"__num__": s}, parse_float=lambda s: {"__num__": s})


class C11(Prop):
    pid = "C11"
    props_file = "Props/C11.v"
    model_targets = ["theories/Websockets/ShimCheck.vo"]
    technique = "Coq proofs: base64 round trip (all byte strings), payload serialisation round trip, FIFO conservation invariants for the two bounded queues over all batchings/interleavings/capacities, injection characterisation; differential run of the real shim handlers against a real websocket backend"
    level_text = ("C11_fifo proves for every batching of client messages into data posts (also more than the queues hold), every server message sequence, every queue capacity and every interleaving of handler, writer, reader and polls that received-so-far ++ queued = sent, "
                  "in both directions (no loss, duplication or reordering); C11_delivery adds completeness: with capacities >= 1 some step is enabled while a message is under way, every step lowers the count of work under way, and at zero both sides hold exactly what was sent. C11_base64_roundtrip and C11_payload prove that type and payload (any bytes under protocol version 1) survive the serialisation; C11_inject characterises header injection (only objects with an object at "
                  "resource.headers change, only by gaining missing entries). The real handlers are run with a real gorilla backend: random text (multi-byte, escapes, <>&) and binary (all byte values, up to 1 MB) messages, batches of 1-40 per post, bursts of 30 server messages between polls; "
                  "the base64 text produced by the agent and the injected JSON are compared with the model.")
    level_note = ("Trusted: Coq kernel, srcfacts (both queue capacities), harness. Modelled, not verified: encoding/json (strings carry valid UTF-8 text unchanged; abstract JSON values), encoding/base64 (modelled exactly incl. the alphabet), gorilla/websocket, Go channels (FIFO with capacity). "
                  "One data post and one poll outstanding at a time, as the injected browser shim does.")
    assumptions = ["Go channels are FIFO; the writer and reader goroutines forward one message at a time", "text messages are valid UTF-8 (JSON strings cannot carry anything else)"]

    def harness(self, ctx):
        obs = {}
        # the 33 s idle scenario runs beside the others
        import threading
        idle = {}

        def run_idle():
            idle["r"] = C.go_test_overlay(ctx.work, "./agent/websockets/", "TestVerifC11Idle$", OVERLAY, "C11Idle.jsonl", ctx.seed, ctx.tier, timeout=600)
        th = threading.Thread(target=run_idle)
        th.start()
        try:
            self._harness_rest(ctx, obs)
        finally:
            th.join()
        rc, out, p, dt = idle["r"]
        rows = C.read_jsonl(p)
        if rc != 0 or not rows:
            raise RuntimeError("C11 harness C11Idle did not run: rc=%s\n%s" % (rc, out[-2000:]))
        obs["C11Idle"] = rows
        return obs

    def _harness_rest(self, ctx, obs):
        for name in ("C11", "C11Inject", "C11B64", "C11Tail", "C11SendThenClose", "C11Backpressure"):
            rc, out, p, dt = C.go_test_overlay(ctx.work, "./agent/websockets/", "TestVerif%s$" % name, OVERLAY, name + ".jsonl", ctx.seed, ctx.tier, timeout=1800)
            rows = C.read_jsonl(p)
            if rc != 0 or not rows:
                raise RuntimeError("C11 harness %s did not run: rc=%s\n%s" % (name, rc, out[-2000:]))
            obs[name] = rows
        return obs

    def oracle(self, ctx, obs):
        res = []
        for r in obs["C11"]:
            rp = {"driver": "TestVerifC11: real shim handlers + real websocket backend", "session": r.get("session"), "version": r.get("version"),
                  "c2s_batches": r.get("c2s_batches"), "s2c_bursts": r.get("s2c_bursts"), "poll_sizes": r.get("poll_sizes"),
                  "c2s_sent": (r.get("c2s_sent") or [])[:12], "c2s_received": (r.get("c2s_received") or [])[:12], "s2c_sent": (r.get("s2c_sent") or [])[:12], "s2c_polled": (r.get("s2c_polled") or [])[:12]}
            if r.get("error"):
                res.append(("session-open-failed", "%s (status %s)" % (r["error"], r.get("status")), rp))
                continue
            if not r["c2s_equal"]:
                kind = "incomplete" if len(r["c2s_received"] or []) < len(r["c2s_sent"] or []) else "altered"
                res.append(("client-to-server:" + kind, "the backend received %d messages for %d sent, or different ones" % (len(r["c2s_received"] or []), len(r["c2s_sent"] or [])), rp))
            if any(s != 200 for s in r["data_statuses"] or []):
                res.append(("data-post-rejected", "data post answered %s" % r["data_statuses"], rp))
            if r["poll_err"]:
                res.append(("poll-failed", r["poll_err"], rp))
            elif not r["s2c_equal"]:
                res.append(("server-to-client:altered", "polls returned %d messages for %d sent, or different ones" % (len(r["s2c_polled"] or []), len(r["s2c_sent"] or [])), rp))
            if r["close_status"] != 200 or not r["backend_saw_close"]:
                res.append(("close-not-propagated", "close answered %s, backend saw the end: %s" % (r["close_status"], r["backend_saw_close"]), rp))
        for r in obs.get("C11Tail", []):
            rp = {"driver": "TestVerifC11Tail: the backend sends k messages and ends the connection before the client polls", "messages": r.get("messages"), "end": r.get("end"),
                  "wait_before_first_poll_ms": r.get("wait_before_first_poll_ms"), "poll_statuses": r.get("poll_statuses"), "s2c_sent": (r.get("s2c_sent") or [])[:12], "s2c_polled": (r.get("s2c_polled") or [])[:12]}
            if r.get("error"):
                res.append(("session-open-failed", "%s (status %s)" % (r["error"], r.get("status")), rp))
            elif not r["s2c_equal"]:
                res.append(("server-to-client:lost-at-end-of-stream", "%d of the %d messages sent before the backend ended the connection were polled" % (len(r["s2c_polled"] or []), len(r["s2c_sent"] or [])), rp))
        for r in obs.get("C11SendThenClose", []):
            rp = {"driver": "TestVerifC11SendThenClose: one data post (answered 200) and at once the close of the session; the backend takes its time per message", "observed": r}
            if r.get("open_status") != 200:
                res.append(("session-open-failed", "open answered %s" % r.get("open_status"), rp))
            elif r.get("data_status") == 200 and not r.get("all_in_order"):
                res.append(("client-to-server:lost-at-close", "the data post was answered 200, yet the backend received %s of its %d messages before the websocket ended (close code %s)" % (
                    r.get("backend_received"), r["messages"], r.get("backend_close_code")), rp))
        for r in obs.get("C11Idle", []):
            rp = {"driver": "TestVerifC11Idle: one message each way, %s ms of silence (one empty long poll, then nothing), one message each way" % r.get("silence_ms"), "observed": r}
            if r.get("error"):
                res.append(("session-open-failed", "%s (status %s)" % (r["error"], r.get("status")), rp))
            else:
                if not r.get("after_s2c_ok"):
                    res.append(("server-to-client:lost-after-silence", "a server message sent after %s ms of silence was not delivered (poll answered %s)" % (r.get("silence_ms"), r.get("after_poll_status")), rp))
                if not r.get("after_c2s_ok"):
                    res.append(("client-to-server:lost-after-silence", "a client message posted after %s ms of silence was not delivered (data post answered %s)" % (r.get("silence_ms"), r.get("after_data_status")), rp))
        for r in obs.get("C11Backpressure") or []:
            rp = {"driver": "TestVerifC11Backpressure: echoing backend, 48 x 1 MiB posted in batches of 8, first poll after 2 s", "observed": r}
            if r.get("error"):
                res.append(("backpressure:open-failed", r["error"], rp))
            elif r.get("echoed_back") != r.get("messages") or not r.get("in_order") or not r.get("intact") or any(s != 200 for s in (r.get("data_post_statuses") or [-1])):
                res.append(("backpressure:messages-stuck-or-changed", "with both queues full and a data post waiting for room, %s of %s messages came back (in order: %s, unchanged: %s); polls answered %s, data posts %s" % (
                    r.get("echoed_back"), r.get("messages"), r.get("in_order"), r.get("intact"), r.get("poll_statuses"), r.get("data_post_statuses")), rp))
        for r in obs["C11Inject"]:
            rp = {"driver": "TestVerifC11Inject", "sent": r["sent"], "received": r.get("received"), "request_headers": r["request_headers"]}
            if not r["delivered"] or r["status"] != 200:
                res.append(("inject:message-not-delivered", "status %s" % r["status"], rp))
                continue
            if r.get("type") != r.get("sent_type", 1):
                res.append(("inject:message-type-changed", "a %s message reached the backend as a %s message" % ({1: "text", 2: "binary"}.get(r.get("sent_type", 1)), {1: "text", 2: "binary"}.get(r.get("type"), r.get("type"))), dict(rp, sent_type=r.get("sent_type", 1), received_type=r.get("type"))))
            try:
                sent = parse_exact(r["sent"])
            except ValueError:
                sent = None
            target = isinstance(sent, dict) and isinstance(sent.get("resource"), dict) and isinstance(sent["resource"].get("headers"), dict)
            if not target:
                if r["received"] != r["sent"]:
                    res.append(("inject:other-message-changed", "a message without a resource.headers object was changed", rp))
                continue
            try:
                got = parse_exact(r["received"])
            except ValueError:
                res.append(("inject:result-not-json", "the injected message is not JSON", rp))
                continue
            exp = json.loads(json.dumps(sent))
            for k, v in r["request_headers"].items():
                exp["resource"]["headers"].setdefault(k, v)
            if got != exp:
                sig = "inject:number-changed" if json.dumps(got).replace('"__num__"', "") != json.dumps(exp).replace('"__num__"', "") and "__num__" in json.dumps(exp) and \
                    json.loads(json.dumps(got).replace("__num__", "n")).keys() == json.loads(json.dumps(exp).replace("__num__", "n")).keys() else "inject:value-changed"
                res.append((sig, "the message changed by something else than the added headers", dict(rp, expected=exp, got=got)))
        return res

    def model_check(self, ctx, obs):
        items, rows = [], []
        for r in obs["C11B64"]:
            bs = bytes.fromhex(r["payload"])
            items.append("b64_case_ok %s %s" % (C.llit(str(b) for b in bs), C.llit(str(ord(c)) for c in r["text"])))
            rows.append(r)
        atoms = {}
        for r in obs["C11Inject"]:
            if not r["delivered"]:
                continue
            try:
                sent, got = json.loads(r["sent"], parse_int=str, parse_float=str), json.loads(r["received"], parse_int=str, parse_float=str)
            except ValueError:
                continue
            # numbers become atoms identified by their literal text
            def norm(v):
                if isinstance(v, dict):
                    return {k: norm(x) for k, x in v.items()}
                if isinstance(v, list):
                    return ["L"] + [json.dumps(norm(x), sort_keys=True) for x in v]
                return v
            hdrs = C.llit("(%s, %s)" % (coq_str(k), coq_str(v)) for k, v in r["request_headers"].items())
            s1, g1 = norm(sent), norm(got)
            def tj(v):
                if isinstance(v, dict):
                    return "(JO %s)" % C.llit("(%s, %s)" % (coq_str(k), tj(x)) for k, x in v.items())
                if isinstance(v, str) and not isinstance(v, bool):
                    return "(JS %s)" % coq_str(v)
                return "(JAtom %d)" % atoms.setdefault(json.dumps(v, sort_keys=True), len(atoms))
            # distinguish JSON strings from number literals: parse again with markers
            sm = json.loads(r["sent"], parse_int=lambda x: ["#", x], parse_float=lambda x: ["#", x])
            gm = json.loads(r["received"], parse_int=lambda x: ["#", x], parse_float=lambda x: ["#", x])
            def tj2(v):
                if isinstance(v, dict):
                    return "(JO %s)" % C.llit("(%s, %s)" % (coq_str(k), tj2(x)) for k, x in v.items())
                if isinstance(v, str):
                    return "(JS %s)" % coq_str(v)
                return "(JAtom %d)" % atoms.setdefault(json.dumps(v, sort_keys=True), len(atoms))
            items.append("inject_case_ok %s %s %s" % (hdrs, tj2(sm), tj2(gm)))
            rows.append(r)
        body = "\n".join(["From Coq Require Import ZArith String List Bool Ascii Arith.", "From IP Require Import Websockets.Msg Websockets.ShimCheck Lib.Util.", "Import ListNotations.", "Open Scope string_scope.", "Open Scope list_scope.",
                          "Definition oks : list bool := " + C.llit(items) + ".",
                          "Definition verif_result : list Z := Eval vm_compute in (bad_indices (fun b : bool => b) 0%Z oks)."])
        txt, out, dt = C.eval_cases(ctx.work, "cases_c11", body)
        if txt is None:
            return [("cases_c11.v (model evaluation)", "coqc failed: " + out[-800:], {})], 0, {}
        mism = [("ShimCheck.b64_case_ok/inject_case_ok", "the base64 text / the injected message differs from the model's", rows[i]) for i in C.parse_z_list(txt)]
        return mism, len(items), {"coqc_s": round(dt, 2), "cases": len(items)}

    def coverage(self, ctx, obs):
        ss = [r for r in obs["C11"] if not r.get("error")]
        hist = collections.Counter()
        for r in ss:
            hist["version:%d" % r["version"]] += 1
            hist["max_batch:%s" % ("<=10" if max(r["c2s_batches"]) <= 10 else ">10")] += 1
            hist["max_burst:%s" % ("<=10" if max(r["s2c_bursts"]) <= 10 else ">10")] += 1
            for t, l, h in (r["c2s_sent"] or []) + (r["s2c_sent"] or []):
                hist["msg:%s:%s" % ("text" if t == 1 else "binary", "0" if l == 0 else "<=255" if l <= 255 else "<=70000" if l <= 70000 else ">=200KB")] += 1
        distinct = {C.case_hash([r["c2s_sent"], r["s2c_sent"], r["c2s_batches"], r["s2c_bursts"]]) for r in ss if len(r["c2s_sent"] or []) + len(r["s2c_sent"] or []) >= 2}
        return {"evaluations": sum(len(r["c2s_sent"] or []) + len(r["s2c_sent"] or []) for r in ss), "distinct_nontrivial": len(distinct) + len(obs["C11Inject"]) + len(obs["C11B64"]),
                "rule": "case = one shim session (client message sequence with its batching into posts, server message sequence with its bursts), distinct by hash, non-trivial with at least two messages; plus the injection corpus and the base64 corpus",
                "samples": [{"batches": ss[0]["c2s_batches"], "bursts": ss[0]["s2c_bursts"], "poll_sizes": ss[0]["poll_sizes"], "first_msgs": ss[0]["c2s_sent"][:3]}, obs["C11Inject"][1]["sent"]],
                "input_distribution": dict(hist)}


PROP = C11()
