#!/bin/bash
# usage: tools/try_seed.sh <ID> [check ids...]  - apply seeded/<ID>/patch.diff to /repo, run the checks, undo
set -u
ID=$1; shift
CHECKS=${@:-${ID%%-*}}
cd /repo && git status --short | grep -q . && { echo "/repo not clean"; exit 2; }
git -C /repo apply /verif/seeded/$ID/patch.diff || { echo "patch does not apply"; exit 2; }
for c in $CHECKS; do
  (cd /verif && ./check $c --tier quick > /verif/work/seed_$ID.$c.log 2>&1; echo "$c rc=$?"; grep -E "^VIOLATION|^KNOWN|done in" /verif/work/seed_$ID.$c.log | cut -c1-260 | head -8)
done
git -C /repo checkout -- . && /verif/bin/srcfacts -repo /repo -out /verif/coq/theories/Gen >/dev/null
