#!/bin/bash
# usage: tools/try_seed.sh <ID> [check ids...]  - apply seeded/<ID>/patch.diff to the repo, run the checks, undo
# (VERIF_REPO selects another checkout of the repository; the framework used is the one this script lives in)
set -u
ID=$1; shift
CHECKS=${@:-${ID%%-*}}
R=${VERIF_REPO:-/repo}
V=$(cd "$(dirname "$0")/.." && pwd)
cd $R && git status --short | grep -q . && { echo "$R not clean"; exit 2; }
git -C $R apply $V/seeded/$ID/patch.diff || { echo "patch does not apply"; exit 2; }
for c in $CHECKS; do
  (cd $V && ./check $c --tier quick > $V/work/seed_$ID.$c.log 2>&1; echo "$ID $c rc=$?"; grep -E "^VIOLATION|^KNOWN|done in" $V/work/seed_$ID.$c.log | cut -c1-260 | head -8)
done
git -C $R checkout -- . && $V/bin/srcfacts -repo $R -out $V/coq/theories/Gen >/dev/null
