#!/usr/bin/env python3
"""Regenerate MANIFEST.json from the property modules under props/."""
import importlib
import json
import os
import sys

HERE = os.path.dirname(os.path.dirname(os.path.abspath(__file__)))
sys.path.insert(0, HERE)
ids = [json.loads(l)["id"] for l in open(os.path.join(HERE, "properties.jsonl"))]
checks, na = [], []
for pid in ids:
    path = os.path.join(HERE, "props", pid.lower() + ".py")
    if not os.path.exists(path):
        na.append({"property_id": pid, "reason": "check not built yet (design in DESIGN.md section 6); not claimed until its model, theorems and correspondence harness are committed"})
        continue
    P = importlib.import_module("props." + pid.lower()).PROP
    checks.append({
        "property_id": pid,
        "quick_cmd": "./check %s --tier quick" % pid,
        "thorough_cmd": "./check %s --tier thorough" % pid,
        "evidence_file": "/verif/evidence/%s.json" % pid,
        "replay_cmd_template": "./check %s --replay {path}" % pid,
        "engine": "coq-model+go-harness",
        "level_claimed": {"category": "proof", "text": P.level_text, "design_ref": "DESIGN.md section 6, " + pid},
        "level_note": P.level_note,
        "technique": P.technique,
    })
m = {
    "version": 1,
    "setup_cmd": "./setup.sh",
    "hooks": {
        "guard": "verif",
        "enable": "go test -tags verif -overlay <json> (test files of ours injected into /repo packages at build time; no file of /repo is changed)",
        "baseline_off_cmd": "cd /repo && GOFLAGS=-mod=mod go test -vet=off -count=1 ./...",
        "source_commits": [],
        "add_only": True,
    },
    "engines": [{
        "name": "coq-model+go-harness", "path": "/verif/check",
        "serves_properties": [c["property_id"] for c in checks],
        "kind_free_text": "Coq 8.16 models and theorems (coq/theories), source-fact translator (harness/cmd/srcfacts), Go correspondence harness (harness/overlay, harness/cmd), python driver (check, lib/, props/)",
    }],
    "checks": checks,
    "not_applicable": na,
    "notes": "Every claimed property is decided by machine-checked Coq theorems about an executable model tied to /repo on every run by regenerated source facts and a correspondence run; see DESIGN.md.",
}
json.dump(m, open(os.path.join(HERE, "MANIFEST.json"), "w"), indent=1)
print("MANIFEST.json: %d checks, %d not claimed" % (len(checks), len(na)))
