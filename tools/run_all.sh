#!/bin/bash
# run every check (quick or thorough tier) on the current tree; summary at the end
TIER=${1:-quick}
cd /verif
for i in $(seq -w 1 20); do
  ./check C$i --tier $TIER > work/all_C$i.$TIER.log 2>&1; rc=$?
  echo "C$i rc=$rc $(grep -c '^VIOLATION' work/all_C$i.$TIER.log) violations, $(grep -c '^KNOWN-FINDING' work/all_C$i.$TIER.log) known; $(tail -1 work/all_C$i.$TIER.log | sed 's/.*tier done in //')"
done
