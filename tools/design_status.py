#!/usr/bin/env python3
"""Refresh the theorem lists (and, given a run_all.sh output file, the quick-tier seconds) of the per-property table in
DESIGN.md section 0.2 from coq/theories/Props/Cxx.v."""
import os, re, sys
V = os.path.dirname(os.path.dirname(os.path.abspath(__file__)))
secs = {}
if len(sys.argv) > 1:
    for l in open(sys.argv[1]):
        m = re.match(r"(C\d\d) rc=\d+ .*; ([\d.]+)s:", l)
        if m:
            secs[m.group(1)] = str(int(round(float(m.group(2)))))
p = os.path.join(V, "DESIGN.md")
lines = open(p).read().split("\n")
for i, l in enumerate(lines):
    m = re.match(r"\| (C\d\d) \| ", l)
    if not m or l.count("|") < 8:
        continue
    pid = m.group(1)
    cells = l.split(" | ")
    if not re.match(r"\d+: ", cells[2]):
        continue
    src = open(os.path.join(V, "coq/theories/Props/%s.v" % pid)).read()
    names = [n[len(pid) + 1:] for n in re.findall(r"^Theorem (%s_\w+)" % pid, src, re.M)]
    cells[2] = "%d: %s" % (len(names), ", ".join(names))
    if pid in secs:
        cells[-1] = secs[pid] + " |"
    lines[i] = " | ".join(cells)
open(p, "w").write("\n".join(lines))
