#!/bin/bash
# usage: tools/soak.sh <rounds> [ids...] - run the quick checks repeatedly on the unchanged tree; any alarm is a defect of the checks
N=${1:-3}; shift
IDS=${@:-$(seq -f "C%02g" 1 20)}
V=$(cd "$(dirname "$0")/.." && pwd)
cd $V
for r in $(seq 1 $N); do
  for c in $IDS; do
    ./check $c --tier quick > work/soak_$c.$r.log 2>&1; rc=$?
    echo "round $r $c rc=$rc $(grep -c '^VIOLATION' work/soak_$c.$r.log) $(grep '^VIOLATION' work/soak_$c.$r.log | head -2 | cut -c1-160 | tr '\n' ' ')"
  done
done
