#!/usr/bin/env python3
"""Print the markdown table of seeded changes (DESIGN.md section 0.7) from seeded/*/meta.json."""
import glob, json, os, re
V = os.path.dirname(os.path.dirname(os.path.abspath(__file__)))
def key(d):
    m = re.match(r"C(\d+)(?:-(\d+))?$", os.path.basename(d))
    return (int(m.group(1)), int(m.group(2) or 1))
print("| seed | change (from the sub-agent's meta.json) | caught by: signature(s) | note |")
print("|---|---|---|---|")
for d in sorted(glob.glob(os.path.join(V, "seeded", "C*")), key=key):
    m = json.load(open(os.path.join(d, "meta.json")))
    v = m.get("verif") or {}
    s = (m.get("summary") or m.get("description") or m.get("change") or "")
    s = " ".join(str(s).split()).replace("|", "/")
    if len(s) > 170:
        s = s[:170] + "..."
    cb = "; ".join("%s: %s" % (c["check"], ", ".join(sorted(c["signatures"]))) for c in v.get("caught_by", []))
    print("| %s | %s | %s | %s |" % (os.path.basename(d), s, cb, (v.get("note") or "").replace("|", "/")))
