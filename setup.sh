#!/bin/bash
# Build the framework from files on disk only (offline). Run once after a fresh restore.
set -e
cd "$(dirname "$0")"
export GOFLAGS=-mod=mod GOPROXY=off GOSUMDB=off GOTOOLCHAIN=local
mkdir -p bin work evidence replays
# our own Go tools
(cd harness && go build -o ../bin/srcfacts ./cmd/srcfacts)
for d in harness/cmd/*/; do
  n=$(basename "$d"); [ "$n" = srcfacts ] && continue
  (cd harness && go build -o ../bin/$n ./cmd/$n)
done
# regenerate the source facts, then a full .vo build of the whole development
./bin/srcfacts -repo /repo -out coq/theories/Gen >/dev/null
(cd coq && coq_makefile -f _CoqProject -o Makefile >/dev/null 2>&1 && timeout 3000 make -j16 >work_build.log 2>&1 || { tail -40 work_build.log; exit 1; })
rm -f coq/work_build.log
# warm the Go build cache for the packages the checks compile (plain and -race); failures here are not fatal
(cd /repo && for p in ./agent/ ./agent/utils/ ./agent/sessions/ ./agent/websockets/ ./agent/banner/ ./server/ ./app/store/ ./utils/tcpbridge/connection/; do
   go test -count=1 -vet=off -run '^$' $p >/dev/null 2>&1 || true; done
 for p in ./agent/ ./server/ ./agent/websockets/ ./agent/sessions/; do go test -race -count=1 -vet=off -run '^$' $p >/dev/null 2>&1 || true; done
 go build -o /dev/null ./server ./agent ./app ./utils/tcpbridge/tcp-bridge-frontend ./utils/tcpbridge/tcp-bridge-backend >/dev/null 2>&1 || true)
echo "setup done"
